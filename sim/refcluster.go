package verifsim

// The "ref" family: clusters of real dbft instances wired to the repository's OWN reference
// payload, block, crypto and codec code (internal/consensus, internal/crypto, internal/merkle)
// instead of the harness's sim payloads.  Every payload that crosses the simulated network is
// encoded by the reference encoder at the sender and decoded by the reference decoder at each
// recipient (P-256 ECDSA block signatures made repeatable by the seeded crypto/rand stream).
//
// The reference payloads carry no witnesses, so this family cannot host a forging adversary;
// all participants run honest code.  Three modes:
//
//   sync    (C08)  fault-free synchronous network, tape-permuted delivery order, duplication,
//                  early payloads through a slow Reset: every validator decides every height in
//                  view 0, nobody asks for a view change or recovery, all blocks equal
//   silent  (C09)  up to F validators never start, synchrony from t = 0: every live validator
//                  decides K heights, all blocks equal
//   hostile (C01)  loss, duplication, heavy-tailed delay, partitions, up to F amnesia restarts,
//                  ledger sync: all blocks handed to the applications are equal per height
//
// Limits of the reference code that the family steps around (they belong to C19, which this
// technique does not address): the decoder has no PreCommit case and the recovery codec turns an
// empty transaction list into nil, so anti-MEV stays off (as in consensus.New) and every
// proposal carries at least one transaction.  An amnesia validator is never crashed at a height
// at which it has already proposed: a primary that proposes twice for one view is an
// equivocating primary, and with it the known finding D1 (C02) is in reach, whose
// classification needs the witness bookkeeping of the sim back end.

import (
	"container/heap"
	"crypto/rand"
	"fmt"
	"sort"
	"time"

	"github.com/nspcc-dev/dbft"
	"github.com/nspcc-dev/dbft/internal/consensus"
	"github.com/nspcc-dev/dbft/internal/crypto"
	"go.uber.org/zap"
	"go.uber.org/zap/zapcore"
)

type refHash = crypto.Uint256

const (
	refSync = iota
	refSilent
	refHostile
)

type refBlk struct {
	idx  uint32
	hash refHash
	ts   uint64
	txs  []uint64
}

type refEv struct {
	at   int64
	seq  uint64
	kind int // 0 deliver, 1 timer, 2 reset, 3 crash, 4 restart, 5 poll, 6 heal, 7 cut
	node int
	gen  uint64
	inc  int
	data []byte
	raw  dbft.ConsensusPayload[refHash] // recovery messages only: handed over in memory (see RefRun)
	from int
}

type refHeap []*refEv

func (h refHeap) Len() int { return len(h) }
func (h refHeap) Less(i, j int) bool {
	if h[i].at != h[j].at {
		return h[i].at < h[j].at
	}
	return h[i].seq < h[j].seq
}
func (h refHeap) Swap(i, j int) { h[i], h[j] = h[j], h[i] }
func (h *refHeap) Push(x any)   { *h = append(*h, x.(*refEv)) }
func (h *refHeap) Pop() any {
	o := *h
	n := len(o)
	x := o[n-1]
	*h = o[:n-1]
	return x
}

type rcTimer struct {
	n     *refNode
	h     uint32
	v     byte
	start int64
	total int64
	gen   uint64
}

func (t *rcTimer) Now() time.Time        { return time.Unix(0, t.n.c.epoch+t.n.c.now+t.n.skew) }
func (t *rcTimer) Height() uint32        { return t.h }
func (t *rcTimer) View() byte            { return t.v }
func (t *rcTimer) C() <-chan time.Time   { return nil }
func (t *rcTimer) Reset(h uint32, v byte, d time.Duration) {
	t.h, t.v = h, v
	t.start = t.n.c.now
	t.total = int64(d)
	if t.total < 0 {
		t.n.c.violate("negative_timer_duration", t.n.id, fmt.Sprintf("Timer.Reset(%d, %d, %v)", h, v, d))
		t.total = 0
	}
	t.gen++
	t.n.c.push(&refEv{at: t.start + t.total, kind: 1, node: t.n.id, gen: t.gen, inc: t.n.inc})
}
func (t *rcTimer) Extend(d time.Duration) {
	t.total += int64(d)
	if t.total > t.n.c.now-t.start {
		t.gen++
		t.n.c.push(&refEv{at: t.start + t.total, kind: 1, node: t.n.id, gen: t.gen, inc: t.n.inc})
	}
}

type refNode struct {
	id     int
	c      *refCluster
	d      *dbft.DBFT[refHash]
	key    dbft.PrivateKey
	pub    dbft.PublicKey
	vidx   int // index in the sorted validator list, -1 observer
	chain  []refBlk
	inPool map[uint64]bool
	tm     *rcTimer
	up     bool
	never  bool // silent from the start
	inc    int
	skew   int64
	amnesia bool
	resetQueued bool
	proposedAt  uint32 // highest height at which this identity broadcast a PrepareRequest
	decidedView map[uint32]byte
	early       map[refHash]bool // commits stored while the header could not be built (D1 bookkeeping)
	slow        bool
}

type refCluster struct {
	mode   int
	tape   *Tape
	now    int64
	epoch  int64
	seq    uint64
	q      refHeap
	nodes  []*refNode
	vals   []dbft.PublicKey
	nVal   int
	T      int64
	delta  int64
	gst    int64
	heights uint32
	txPer  int
	st     Stats
	viol   *Violation
	record bool
	trace  []string
	accepted map[uint32]refHash
	cut      []int // partition group per node (0 = connected to everybody in group 0)
	cutOn    bool
	loss     uint64 // per mille
	dupPm    uint64
	th       uint64
	log      *zap.Logger
	cur      *refNode
	d1       bool // some acceptance in this run had the signature of known finding D1
}

type refCore struct{ c *refCluster }

func (r refCore) Enabled(zapcore.Level) bool        { return true }
func (r refCore) With([]zapcore.Field) zapcore.Core { return r }
func (r refCore) Check(e zapcore.Entry, ce *zapcore.CheckedEntry) *zapcore.CheckedEntry {
	return ce.AddCore(e, r)
}
func (r refCore) Write(e zapcore.Entry, fs []zapcore.Field) error {
	if e.Level >= zapcore.WarnLevel {
		r.c.st.Probe["ref_log:"+e.Message]++
	}
	if r.c.record && r.c.cur != nil {
		enc := zapcore.NewMapObjectEncoder()
		for _, f := range fs {
			f.AddTo(enc)
		}
		ks := make([]string, 0, len(enc.Fields))
		for k := range enc.Fields {
			ks = append(ks, k)
		}
		sort.Strings(ks)
		txt := ""
		for _, k := range ks {
			txt += fmt.Sprintf(" %s=%v", k, enc.Fields[k])
		}
		r.c.tracef("    n%d log[%s] %s%s", r.c.cur.id, e.Level, e.Message, txt)
	}
	return nil
}
func (r refCore) Sync() error { return nil }

func (c *refCluster) push(e *refEv) {
	c.seq++
	e.seq = c.seq
	heap.Push(&c.q, e)
}

func (c *refCluster) violate(class string, node int, detail string) {
	if c.viol == nil {
		c.viol = &Violation{Prop: []string{"C08", "C09", "C01"}[c.mode], Class: class, Detail: "[reference back end] " + detail, Seq: c.seq, At: c.now, Node: node}
	}
}

func (c *refCluster) tracef(f string, a ...any) {
	if c.record {
		c.trace = append(c.trace, fmt.Sprintf("t=%.6fs ", float64(c.now)/1e9)+fmt.Sprintf(f, a...))
	}
}

func (c *refCluster) fold(vs ...uint64) {
	for _, v := range vs {
		c.th = mix64(c.th, v)
	}
}

func rh64(h refHash) uint64 {
	var x uint64
	for i := 0; i < 8; i++ {
		x = x<<8 | uint64(h[i])
	}
	return x
}

func (n *refNode) tip() refBlk { return n.chain[len(n.chain)-1] }

func (n *refNode) boot() {
	c := n.c
	n.tm = &rcTimer{n: n}
	n.early = map[refHash]bool{}
	n.inc++
	n.resetQueued = false
	log := c.log
	// the instance is built by the repository's own constructor (consensus.New: the reference
	// payload constructors, 5 s blocks, no extensions - what the bundled example uses); only the
	// timer is replaced by the simulated one afterwards
	d, err := consensus.New(log, n.key, n.pub,
		func(h refHash) dbft.Transaction[refHash] {
			for v := range n.inPool {
				tx := consensus.Tx64(v)
				if tx.Hash() == h {
					return &tx
				}
			}
			return nil
		},
		func() []dbft.Transaction[refHash] {
			ids := make([]uint64, 0, len(n.inPool))
			for v := range n.inPool {
				ids = append(ids, v)
			}
			sort.Slice(ids, func(i, j int) bool { return ids[i] < ids[j] })
			if len(ids) > c.txPer {
				ids = ids[:c.txPer]
			}
			l := make([]dbft.Transaction[refHash], 0, len(ids))
			for _, v := range ids {
				tx := consensus.Tx64(v)
				l = append(l, &tx)
			}
			return l
		},
		n.broadcast,
		n.processBlock,
		func() uint32 { return n.tip().idx },
		func() refHash { return n.tip().hash },
		func(...dbft.Transaction[refHash]) []dbft.PublicKey { return c.vals },
		func(p dbft.ConsensusPayload[refHash]) error {
			// (the library asks for the header right after this callback; asking here only
			// computes it one line earlier) - a commit taken in while the header cannot be built
			// is never re-validated at a node that RECEIVES the proposal: known finding D1
			if p.Type() == dbft.CommitType && n.d != nil && n.d.MakeHeader() == nil {
				n.early[p.Hash()] = true
			}
			return nil
		},
	)
	if err != nil {
		c.violate("harness_error", n.id, "dbft.New: "+err.Error())
		return
	}
	d.Timer = n.tm                // the DBFT's own copy of the configuration ...
	d.Context.Config.Timer = n.tm // ... and the one the Context points to (it takes proposal timestamps from it)
	n.d = d
	n.up = true
	c.tracef("n%d boot (incarnation %d) at ledger height %d", n.id, n.inc, n.tip().idx)
	n.call("Start", func() { d.Start(n.tip().ts) })
}

func (n *refNode) call(what string, f func()) {
	c := n.c
	c.st.Calls++
	prev := c.cur
	c.cur = n
	defer func() {
		c.cur = prev
		if r := recover(); r != nil {
			c.st.Panics++
			c.violate("library_panic", n.id, fmt.Sprintf("%s at node %d: %v", what, n.id, r))
		}
	}()
	f()
}

func (n *refNode) broadcast(p dbft.ConsensusPayload[refHash]) {
	c := n.c
	pl, ok := p.(*consensus.Payload)
	if !ok {
		c.violate("harness_error", n.id, "unexpected payload implementation")
		return
	}
	data := pl.MarshalUnsigned()
	ph := rh64(p.Hash())
	c.fold(1, uint64(n.id), uint64(p.Type()), uint64(p.Height()), uint64(p.ViewNumber()), ph)
	c.tracef("n%d broadcast %s h=%d v=%d (%d bytes on the wire)", n.id, p.Type(), p.Height(), p.ViewNumber(), len(data))
	switch p.Type() {
	case dbft.PrepareRequestType:
		if p.Height() > n.proposedAt {
			n.proposedAt = p.Height()
		}
	case dbft.ChangeViewType, dbft.RecoveryRequestType:
		if c.mode == refSync {
			c.violate("asked_for_view_change_or_recovery", n.id,
				fmt.Sprintf("node %d broadcast %s at height %d view %d in a fault-free synchronous run", n.id, p.Type(), p.Height(), p.ViewNumber()))
		}
		c.st.ExNote["ref_"+p.Type().String()]++
	case dbft.RecoveryMessageType:
		c.st.ExNote["ref_RecoveryMessage"]++
	}
	// (every payload type goes through the reference codec, recovery messages included: until
	// fix D16 the codec lost the preparation hash of a recovery message that carries the proposal)
	var raw dbft.ConsensusPayload[refHash]
	for _, m := range c.nodes {
		if m.id == n.id {
			continue
		}
		c.send(n.id, m.id, data, raw)
	}
}

func (c *refCluster) connected(a, b int) bool {
	return !c.cutOn || c.cut[a] == c.cut[b]
}

func (c *refCluster) send(from, to int, data []byte, raw dbft.ConsensusPayload[refHash]) {
	t := c.tape
	hostile := c.mode == refHostile && c.now < c.gst
	if hostile {
		if !c.connected(from, to) {
			c.st.Fault["ref_partition_drop"]++
			return
		}
		if c.loss > 0 && t.Chance(SNet, c.loss, 1000) {
			c.st.Fault["ref_drop"]++
			return
		}
	}
	lat := 1 + int64(t.Draw(SNet, uint64(c.delta)))
	if hostile && t.Chance(SNet, 1, 12) {
		lat += int64(t.Draw(SNet, uint64(3*c.T)))
		c.st.Fault["ref_long_delay"]++
	}
	c.push(&refEv{at: c.now + lat, kind: 0, node: to, data: data, raw: raw, from: from})
	if c.dupPm > 0 && t.Chance(SNet, c.dupPm, 1000) {
		c.st.Fault["ref_duplicate"]++
		c.push(&refEv{at: c.now + lat + 1 + int64(t.Draw(SNet, uint64(c.delta))), kind: 0, node: to, data: data, raw: raw, from: from})
	}
}

func (n *refNode) processBlock(b dbft.Block[refHash]) error {
	c := n.c
	h := b.Hash()
	c.fold(2, uint64(n.id), uint64(b.Index()), rh64(h))
	c.tracef("n%d ProcessBlock index=%d hash=%x view=%d txs=%d", n.id, b.Index(), h[:4], n.d.ViewNumber, len(b.Transactions()))
	// decision certificate under real cryptography: M current-view commits whose P-256
	// signatures verify against exactly this block (all participants of this family run honest
	// code and no primary proposes twice, so known finding D1 is out of reach here)
	valid, invalidEarly, invalidLate := 0, 0, 0
	for i, cp := range n.d.CommitPayloads {
		if cp == nil || cp.ViewNumber() != n.d.ViewNumber || i >= len(c.vals) {
			continue
		}
		if cm := cp.GetCommit(); cm != nil && b.Verify(c.vals[i], cm.Signature()) == nil {
			valid++
		} else if n.early[cp.Hash()] {
			invalidEarly++
		} else {
			invalidLate++
		}
	}
	if m := c.nVal - (c.nVal-1)/3; valid < m {
		if invalidLate == 0 && valid+invalidEarly >= m {
			// known finding D1 (C02), reachable here because the reference GetCommits relabels
			// the commits inside a recovery message with the view of the message: a commit of
			// an older view can arrive as a current-view one before the proposal is known
			c.st.ExNote["ref_known_D1_certificate_counts_unverified_early_commit"]++
			c.d1 = true
		} else {
			c.violate("accepted_block_without_M_valid_commits", n.id, fmt.Sprintf("node %d accepted block %d in view %d holding %d current-view commits that verify against it (M=%d), %d invalid taken in before the header was known, %d invalid taken in later", n.id, b.Index(), n.d.ViewNumber, valid, m, invalidEarly, invalidLate))
		}
	}
	c.st.ExNote["ref_certificate_verified_with_real_signatures"]++
	if prev, ok := c.accepted[b.Index()]; ok && prev != h {
		class := "fork"
		if c.d1 {
			class = "fork_via_unverified_early_commit" // consequence of known finding D1
		}
		c.violate(class, n.id, fmt.Sprintf("height %d: node %d accepted block %x, another node accepted %x", b.Index(), n.id, h[:6], prev[:6]))
	} else {
		c.accepted[b.Index()] = h
	}
	c.st.Decided++
	if b.Index() > c.st.MaxHeight {
		c.st.MaxHeight = b.Index()
	}
	if b.Index() != n.tip().idx+1 {
		// the ledger moved on by block sync while the library was still at the old height
		return nil
	}
	if b.PrevHash() != n.tip().hash {
		c.violate("block_does_not_extend_the_ledger", n.id, fmt.Sprintf("node %d height %d", n.id, b.Index()))
	}
	if len(b.Transactions()) == 0 {
		c.violate("accepted_block_without_transactions", n.id, fmt.Sprintf("node %d height %d: every pool held transactions", n.id, b.Index()))
	}
	blk := refBlk{idx: b.Index(), hash: h, ts: n.d.Timestamp}
	for _, tx := range b.Transactions() {
		v := uint64(*tx.(*consensus.Tx64))
		blk.txs = append(blk.txs, v)
		delete(n.inPool, v)
	}
	n.chain = append(n.chain, blk)
	n.decidedView[b.Index()] = n.d.ViewNumber
	if c.mode == refSync && n.vidx >= 0 && n.d.ViewNumber != 0 {
		c.violate("decided_in_higher_view", n.id, fmt.Sprintf("node %d decided height %d in view %d", n.id, b.Index(), n.d.ViewNumber))
	}
	n.queueReset()
	return nil
}

func (n *refNode) queueReset() {
	c := n.c
	if n.resetQueued {
		return
	}
	n.resetQueued = true
	var delay int64
	switch {
	case n.slow && (n.vidx < 0 || c.nVal >= 3 && int(n.tip().idx+1)%c.nVal != n.vidx && int(n.tip().idx+2)%c.nVal != n.vidx) && c.tape.Chance(SApp, 1, 2):
		// next-height traffic reaches this node before it has entered the height
		delay = int64(c.tape.Draw(SApp, uint64(c.T/2)))
		c.st.Fault["ref_slow_reset"]++
	default:
		delay = int64(c.tape.Draw(SApp, uint64(c.delta)))
	}
	c.push(&refEv{at: c.now + delay, kind: 2, node: n.id, inc: n.inc})
}

// RefRun returns the Run function of one mode of the reference-back-end family.
func RefRun(mode int) func(*Tape, bool) *RunResult {
	return func(t *Tape, record bool) *RunResult {
		c := &refCluster{mode: mode, tape: t, record: record, accepted: map[uint32]refHash{}}
		c.st = Stats{Fault: map[string]int{}, Probe: map[string]int{}, ExNote: map[string]int{}, StateSigs: map[uint64]struct{}{}}
		c.log = zap.New(refCore{c}, zap.Development(), zap.WithFatalHook(zapcore.WriteThenPanic))
		c.epoch = 1_000_000_000 * int64(time.Second)
		// scenario
		switch mode {
		case refSync:
			c.nVal = []int{4, 7, 1, 2, 3, 5, 6}[t.Draw(SScen, 7)]
		default:
			c.nVal = []int{4, 7, 5, 6}[t.Draw(SScen, 4)]
		}
		c.T = 5 * int64(time.Second) // consensus.New fixes the block time
		t.Draw(SScen, 3)
		c.delta = []int64{20, 2, 100}[t.Draw(SScen, 3)] * int64(time.Millisecond)
		c.heights = uint32(3 + t.Draw(SScen, 3))
		c.txPer = 1 + int(t.Draw(SScen, 4))
		c.dupPm = []uint64{0, 50, 200}[t.Draw(SScen, 3)]
		nObs := 0
		if t.Chance(SScen, 1, 4) {
			nObs = 1
		}
		F := (c.nVal - 1) / 3
		nFaulty := 0
		if mode != refSync && F > 0 {
			nFaulty = 1 + int(t.Draw(SScen, uint64(F)))
		}
		if mode == refHostile {
			c.loss = []uint64{0, 30, 150}[t.Draw(SScen, 3)]
			c.gst = int64(c.heights) * c.T * int64(2+t.Draw(SScen, 6))
		}
		scen := map[string]any{"family": "ref", "mode": []string{"sync", "silent", "hostile"}[mode], "validators": c.nVal, "observers": nObs,
			"heights": c.heights, "T_s": c.T / 1e9, "delta_ms": c.delta / 1e6, "tx_per_block": c.txPer, "dup_per_mille": c.dupPm,
			"loss_per_mille": c.loss, "faulty": nFaulty, "back_end": "internal/consensus + internal/crypto + wire codec"}
		// identities: real P-256 keys from the seeded crypto/rand stream
		total := c.nVal + nObs
		type ident struct {
			key dbft.PrivateKey
			pub dbft.PublicKey
		}
		ids := make([]ident, total)
		for i := range ids {
			ids[i].key, ids[i].pub = crypto.Generate(rand.Reader)
		}
		for i := range ids {
			c.tracef("identity %d public key X=%x...", i, ids[i].pub.(*crypto.ECDSAPub).X.Bytes()[:6])
		}
		vals := make([]dbft.PublicKey, c.nVal)
		for i := range vals {
			vals[i] = ids[i].pub
		}
		sort.Slice(vals, func(i, j int) bool { return vals[i].(*crypto.ECDSAPub).Compare(vals[j].(*crypto.ECDSAPub)) < 0 })
		c.vals = vals
		c.cut = make([]int, total)
		nTx := int(c.heights+4) * c.txPer * 2
		for i := 0; i < total; i++ {
			n := &refNode{id: i, c: c, key: ids[i].key, pub: ids[i].pub, vidx: -1, inPool: map[uint64]bool{}, decidedView: map[uint32]byte{}}
			for j := range vals {
				if i < c.nVal && vals[j].(*crypto.ECDSAPub).Equals(n.pub) {
					n.vidx = j
				}
			}
			n.chain = []refBlk{{idx: 0, ts: uint64(c.epoch)}}
			for v := 0; v < nTx; v++ {
				n.inPool[uint64(v)] = true
			}
			if mode != refSync {
				n.skew = int64(t.Draw(SScen, 200)) * int64(time.Millisecond)
			}
			c.nodes = append(c.nodes, n)
		}
		// faulty identities
		perm := t.Perm(SScen, c.nVal)
		for k := 0; k < nFaulty; k++ {
			n := c.nodes[perm[k]]
			if mode == refSilent {
				n.never = true
				c.st.Fault["ref_silent_from_start"]++
			} else {
				n.amnesia = true
			}
		}
		if mode == refSync && t.Chance(SScen, 1, 2) {
			// one designated slow application (its Reset comes up to half a block time late, so the
			// traffic of the next height reaches it before it has entered that height) - never at a
			// node that proposes at one of the next two heights: a late proposal is an application
			// fault, not a matter of message order (queueReset checks that per block)
			c.nodes[t.Draw(SScen, uint64(total))].slow = true
		}
		// boot: everybody at t = 0, in tape order, before the first delivery
		for _, i := range t.Perm(SScen, total) {
			n := c.nodes[i]
			if n.never {
				continue
			}
			n.boot()
		}
		if mode != refSync {
			// block sync: a node that the others left behind at a finished height can only catch
			// up from the ledger (C09 says so)
			for _, n := range c.nodes {
				if !n.never {
					c.push(&refEv{at: c.T/2 + int64(n.id), kind: 5, node: n.id})
				}
			}
		}
		if mode == refHostile {
			for _, n := range c.nodes {
				if n.amnesia {
					c.push(&refEv{at: int64(t.Draw(SFault, uint64(c.gst))), kind: 3, node: n.id})
				}
			}
			if t.Chance(SFault, 2, 3) {
				c.push(&refEv{at: int64(t.Draw(SFault, uint64(c.gst))), kind: 7})
			}
		}
		horizon := int64(c.heights) * c.T * 4
		if mode == refSilent {
			horizon = int64(c.heights) * c.T * 40
		}
		if mode == refHostile {
			horizon = c.gst + int64(c.heights)*c.T*6
		}
		maxEvents := 60000
		for c.q.Len() > 0 && c.viol == nil {
			e := heap.Pop(&c.q).(*refEv)
			if e.at > horizon {
				break
			}
			if e.at > c.now {
				c.now = e.at
			}
			c.st.Events++
			if c.st.Events > maxEvents {
				c.st.Truncated = "ref_event_cap"
				break
			}
			c.step(e)
			if c.done() {
				break
			}
		}
		c.st.SimTime = c.now
		c.finish()
		c.st.TraceHash = c.th
		c.st.SchedSig = c.th
		res := &RunResult{Viol: c.viol, St: c.st, Scen: scen, Trace: c.trace, SimCount: 1}
		return res
	}
}

func (c *refCluster) done() bool {
	for _, n := range c.nodes {
		if n.never || n.vidx < 0 && c.mode != refSync {
			continue
		}
		if !n.up || n.tip().idx < c.heights {
			return false
		}
	}
	return true
}

func (c *refCluster) step(e *refEv) {
	n := (*refNode)(nil)
	if e.kind <= 5 {
		n = c.nodes[e.node]
	}
	switch e.kind {
	case 0:
		if !n.up {
			return
		}
		if c.mode == refHostile && c.now < c.gst && !c.connected(e.from, n.id) {
			c.st.Fault["ref_partition_drop"]++
			return
		}
		var p dbft.ConsensusPayload[refHash]
		if e.raw != nil {
			p = e.raw
		} else {
			dp := new(consensus.Payload)
			if err := dp.UnmarshalUnsigned(e.data); err != nil {
				c.violate("harness_error", n.id, "the reference decoder refused a payload the reference encoder produced: "+err.Error())
				return
			}
			p = dp
		}
		c.fold(3, uint64(n.id), uint64(e.from), rh64(p.Hash()))
		c.tracef("n%d <- n%d %s h=%d v=%d", n.id, e.from, p.Type(), p.Height(), p.ViewNumber())
		if p.Height() > n.d.BlockIndex || p.Height() == n.d.BlockIndex && p.ViewNumber() > n.d.ViewNumber {
			c.st.ExNote["ref_payload_before_its_height_or_view"]++
			c.st.Exercised = true
		}
		n.call("OnReceive", func() { n.d.OnReceive(p) })
	case 1:
		if !n.up || e.inc != n.inc || e.gen != n.tm.gen {
			return
		}
		c.fold(4, uint64(n.id), uint64(n.tm.h), uint64(n.tm.v))
		c.tracef("n%d timeout h=%d v=%d", n.id, n.tm.h, n.tm.v)
		n.call("OnTimeout", func() { n.d.OnTimeout(n.tm.h, n.tm.v) })
	case 2:
		if !n.up || e.inc != n.inc {
			return
		}
		n.resetQueued = false
		c.fold(5, uint64(n.id), uint64(n.tip().idx))
		c.tracef("n%d Reset at ledger height %d", n.id, n.tip().idx)
		n.call("Reset", func() { n.d.Reset(n.tip().ts) })
	case 3: // crash of an amnesia validator (never at a height at which it has proposed)
		if !n.up || c.now >= c.gst {
			return
		}
		if n.proposedAt >= n.tip().idx+1 {
			c.push(&refEv{at: c.now + c.T/3 + 1, kind: 3, node: n.id})
			return
		}
		n.up = false
		n.d = nil
		c.st.Fault["ref_crash_amnesia"]++
		c.st.Exercised = true
		c.tracef("n%d CRASH (consensus state lost, ledger height %d kept)", n.id, n.tip().idx)
		c.push(&refEv{at: c.now + 1 + int64(c.tape.Draw(SFault, uint64(4*c.T))), kind: 4, node: n.id})
	case 4:
		if n.up {
			return
		}
		c.st.Fault["ref_restart"]++
		n.boot()
		if c.now < c.gst && c.tape.Chance(SFault, 1, 3) {
			c.push(&refEv{at: c.now + int64(c.tape.Draw(SFault, uint64(c.gst-c.now)+1)), kind: 3, node: n.id})
		}
	case 5: // ledger sync poll
		c.push(&refEv{at: c.now + c.T/2, kind: 5, node: n.id})
		if !n.up {
			return
		}
		peer := c.nodes[(n.id+1+int(c.tape.Draw(SApp, uint64(len(c.nodes)-1))))%len(c.nodes)]
		if peer.id == n.id || !peer.up && peer.never {
			return
		}
		if c.now < c.gst && !c.connected(peer.id, n.id) {
			return
		}
		if peer.tip().idx > n.tip().idx {
			for _, b := range peer.chain[len(n.chain):] {
				n.chain = append(n.chain, b)
				for _, v := range b.txs {
					delete(n.inPool, v)
				}
			}
			c.st.Fault["ref_block_sync"]++
			c.tracef("n%d synced blocks up to %d from n%d", n.id, n.tip().idx, peer.id)
			n.queueReset()
		}
	case 6:
		c.cutOn = false
		c.st.Fault["ref_partition_healed"]++
		c.tracef("partition healed")
		if c.now < c.gst && c.tape.Chance(SFault, 1, 2) {
			c.push(&refEv{at: c.now + int64(c.tape.Draw(SFault, uint64(c.gst-c.now)+1)), kind: 7})
		}
	case 7:
		if c.now >= c.gst {
			return
		}
		for i := range c.cut {
			c.cut[i] = int(c.tape.Draw(SFault, 2))
		}
		c.cutOn = true
		c.st.Fault["ref_partition"]++
		c.st.Exercised = true
		c.tracef("partition %v", c.cut)
		c.push(&refEv{at: c.now + 1 + int64(c.tape.Draw(SFault, uint64(6*c.T))), kind: 6})
	}
}

func (c *refCluster) finish() {
	heights := 0
	for h := uint32(1); h <= c.heights; h++ {
		if _, ok := c.accepted[h]; ok {
			heights++
		}
	}
	c.st.HeightsDecided = heights
	if c.viol != nil || c.st.Truncated != "" {
		return
	}
	// cross-check of the ledgers (synced blocks included)
	for h := uint32(1); h <= c.st.MaxHeight; h++ {
		var first *refBlk
		for _, n := range c.nodes {
			if int(h) < len(n.chain) {
				b := n.chain[h]
				if first == nil {
					first = &b
				} else if first.hash != b.hash {
					c.violate("fork", n.id, fmt.Sprintf("ledgers differ at height %d", h))
					return
				}
			}
		}
	}
	switch c.mode {
	case refSync:
		for _, n := range c.nodes {
			if n.vidx < 0 {
				continue
			}
			if n.tip().idx < c.heights {
				c.violate("not_every_height_decided", n.id, fmt.Sprintf("validator %d (node %d) stopped at height %d of %d in a fault-free synchronous run", n.vidx, n.id, n.tip().idx, c.heights))
				return
			}
		}
		if c.dupPm > 0 {
			c.st.Exercised = true
		}
	case refSilent:
		c.st.Exercised = true
		for _, n := range c.nodes {
			if n.never || n.vidx < 0 {
				continue
			}
			if n.tip().idx < c.heights {
				if c.maxLiveView() >= 4 {
					// the change-view timers of views >= 4 (T << 6 and more) outlive the horizon:
					// not judged
					c.st.Truncated = "ref_view_ladder_beyond_horizon"
					return
				}
				if c.commitLockDeadlock() {
					// the protocol-level commit lock of dBFT 2.0 (known finding L2): validators that
					// have sent their Commit never leave their view, the others have moved on, and
					// in no view can M validators still come together
					c.violate("stall_commit_lock_across_views", n.id, fmt.Sprintf("validator %d (node %d) is at ledger height %d of %d: %s", n.vidx, n.id, n.tip().idx, c.heights, c.lockState()))
					return
				}
				c.violate("no_progress_with_silent_validators", n.id, fmt.Sprintf("validator %d (node %d) is at ledger height %d of %d after %d block times of synchrony with only silent validators missing", n.vidx, n.id, n.tip().idx, c.heights, c.now/c.T))
				return
			}
		}
	}
}

// commitLockDeadlock recognises the commit lock of dBFT 2.0 at the end of a stalled run, from
// first principles: at the stuck height, a validator that has sent its Commit stays in its view
// for ever and an unlocked one can only move to higher views; the height is dead iff for every
// view w the validators locked in w plus the unlocked ones that are still at or below w are
// fewer than M.  Anything else that stalls (a quorum could still form) is not this finding.
func (c *refCluster) commitLockDeadlock() bool {
	var top uint32
	for _, n := range c.nodes {
		if n.vidx >= 0 && !n.never && n.tip().idx > top {
			top = n.tip().idx
		}
	}
	h := top + 1
	m := c.nVal - (c.nVal-1)/3
	locked := map[int]int{}
	var unlocked []int
	any := false
	for _, n := range c.nodes {
		if n.vidx < 0 || n.never || !n.up || n.d == nil || n.d.BlockIndex != h {
			continue
		}
		if n.d.CommitSent() {
			locked[int(n.d.ViewNumber)]++
			any = true
		} else {
			unlocked = append(unlocked, int(n.d.ViewNumber))
		}
	}
	if !any {
		return false
	}
	views := []int{1 << 20}
	for w := range locked {
		views = append(views, w)
	}
	for _, w := range views {
		cnt := locked[w]
		for _, u := range unlocked {
			if u <= w {
				cnt++
			}
		}
		if cnt >= m {
			return false
		}
	}
	return true
}

func (c *refCluster) lockState() string {
	txt := ""
	for _, n := range c.nodes {
		if n.vidx < 0 || n.never || n.d == nil {
			continue
		}
		txt += fmt.Sprintf(" v%d:h=%d,view=%d,commit=%v", n.vidx, n.d.BlockIndex, n.d.ViewNumber, n.d.CommitSent())
	}
	return "state at the end:" + txt
}

func (c *refCluster) maxLiveView() int {
	v := 0
	for _, n := range c.nodes {
		if n.vidx >= 0 && !n.never && n.up && n.d != nil && int(n.d.ViewNumber) > v {
			v = int(n.d.ViewNumber)
		}
	}
	return v
}
