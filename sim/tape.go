package verifsim

// The choice tape: the single source of every nondeterministic decision.
//
// Generation mode: each named stream has its own SplitMix64 generator seeded
// from (run seed, stream id); every value handed out is appended to the
// recorded tape.  Replay mode: values come from the recorded tape, are reduced
// modulo the requested bound, and an exhausted stream yields 0.
//
// Convention: 0 is always the benign choice (no fault, minimum latency, FIFO,
// honest behaviour, smallest scenario), so that an all-zero tape is the
// canonical fault-free run and shrinking towards zero simplifies the run.

type Stream uint8

const (
	SScen    Stream = iota // scenario shape
	SNet                   // latency / drop / dup of ordinary traffic
	SFault                 // partitions, crashes, restarts, stalls, clock faults
	SAdv                   // Byzantine decisions
	SApp                   // application behaviour: reset delay, tx supply, verdicts
	STimer                 // early/late timer firing
	SMap                   // cached-payload replay order
	SProbe                 // C11 probes
	SSpecial               // traffic to/from the special node in pair runs
	SWork                  // workload: tx injection
	nStreams
)

var streamNames = [nStreams]string{"scen", "net", "fault", "adv", "app", "timer", "map", "probe", "special", "work"}

type Tape struct {
	Replay bool
	Rec    [nStreams][]uint64
	pos    [nStreams]int
	rng    [nStreams]uint64
	// Mask disables generation for a stream (always 0) - used for swarm switches.
	Mask [nStreams]bool
}

func splitmix(x *uint64) uint64 {
	*x += 0x9E3779B97F4A7C15
	z := *x
	z = (z ^ (z >> 30)) * 0xBF58476D1CE4E5B9
	z = (z ^ (z >> 27)) * 0x94D049BB133111EB
	return z ^ (z >> 31)
}

func mix64(a, b uint64) uint64 {
	x := a ^ (b + 0x9E3779B97F4A7C15 + (a << 6) + (a >> 2))
	return splitmix(&x)
}

// NewTape creates a generating tape for the given run seed.
func NewTape(seed uint64) *Tape {
	t := &Tape{}
	for i := range t.rng {
		t.rng[i] = mix64(seed, uint64(i)+1)
	}
	return t
}

// NewReplayTape creates a tape that replays recorded values.
func NewReplayTape(rec [nStreams][]uint64) *Tape {
	t := &Tape{Replay: true}
	for i := range rec {
		t.Rec[i] = append([]uint64(nil), rec[i]...)
	}
	return t
}

// Draw returns a value in [0, bound).  bound <= 1 consumes nothing.
func (t *Tape) Draw(st Stream, bound uint64) uint64 {
	if bound <= 1 {
		return 0
	}
	if t.Replay {
		p := t.pos[st]
		t.pos[st]++
		if p >= len(t.Rec[st]) {
			return 0
		}
		return t.Rec[st][p] % bound
	}
	var v uint64
	if !t.Mask[st] {
		v = splitmix(&t.rng[st]) % bound
	}
	t.Rec[st] = append(t.Rec[st], v)
	return v
}

// Chance is true with probability num/den; value 0 is always "false".
func (t *Tape) Chance(st Stream, num, den uint64) bool {
	if num == 0 {
		return false
	}
	v := t.Draw(st, den)
	return v >= den-num
}

// Range returns lo + Draw(hi-lo+1); 0 maps to lo.
func (t *Tape) Range(st Stream, lo, hi int64) int64 {
	if hi <= lo {
		return lo
	}
	return lo + int64(t.Draw(st, uint64(hi-lo+1)))
}

// Perm returns a permutation of [0,n); an all-zero tape gives the identity.
func (t *Tape) Perm(st Stream, n int) []int {
	p := make([]int, n)
	for i := range p {
		p[i] = i
	}
	for i := 0; i < n-1; i++ {
		j := i + int(t.Draw(st, uint64(n-i)))
		p[i], p[j] = p[j], p[i]
	}
	return p
}

// Used reports how many values each stream has consumed/recorded.
func (t *Tape) Used() [nStreams]int {
	var u [nStreams]int
	for i := range u {
		if t.Replay {
			u[i] = t.pos[i]
		} else {
			u[i] = len(t.Rec[i])
		}
	}
	return u
}
