// mkoverlay generates a `go build -overlay` file for the repository under test.
//
// It never edits the repository.  It (1) adds the verif-tagged hook files to
// the packages that need them and (2) rewrites every `for ... range x.f`
// statement whose `f` is a map-typed field of a struct declared in the same
// package into `for ... range verifMapOrder(x.f)`, so that the order in which
// cached payloads are replayed is decided by the simulator instead of by the
// Go runtime's randomised map iteration.
//
// Exit status: 0 ok, 2 trouble (never 1: 1 is reserved for violations).
package main

import (
	"bytes"
	"encoding/json"
	"flag"
	"fmt"
	"go/ast"
	"go/parser"
	"go/printer"
	"go/token"
	"os"
	"path/filepath"
	"sort"
	"strings"
)

type pkgSpec struct {
	dir      string // relative to repo
	hookSrc  string // file under hooks dir to add (may be empty)
	hookName string // name it gets inside the package directory
	testHook string // _test.go file to add (may be empty)
	testName string
	mustLoop bool // at least one loop must be rewritten if map fields exist
}

func die(format string, a ...any) {
	fmt.Fprintf(os.Stderr, "mkoverlay: "+format+"\n", a...)
	os.Exit(2)
}

func main() {
	repo := flag.String("repo", "/repo", "repository root")
	hooks := flag.String("hooks", "/verif/hooks", "directory with hook sources")
	out := flag.String("out", "/verif/.build/overlay", "output directory")
	flag.Parse()

	if err := os.MkdirAll(*out, 0o755); err != nil {
		die("%v", err)
	}
	replace := map[string]string{}

	specs := []pkgSpec{
		{dir: ".", hookSrc: "dbft_hooks.go.txt", hookName: "zz_verif_hooks.go", mustLoop: true},
		{dir: "internal/simulation", hookSrc: "simulation_hooks.go.txt", hookName: "zz_verif_hooks.go",
			testHook: "simulation_test.go.txt", testName: "zz_verif_test.go", mustLoop: false},
	}
	report := map[string]any{}
	for _, sp := range specs {
		dir := filepath.Join(*repo, sp.dir)
		n, fields, err := rewritePackage(dir, filepath.Join(*out, strings.ReplaceAll(sp.dir, "/", "_")), replace)
		if err != nil {
			die("%s: %v", sp.dir, err)
		}
		if sp.mustLoop && len(fields) > 0 && n == 0 {
			die("%s: struct map fields %v exist but no range loop over them was found; "+
				"map replay order cannot be controlled", sp.dir, fields)
		}
		report[sp.dir] = map[string]any{"map_fields": fields, "loops_rewritten": n}
		if sp.hookSrc != "" {
			src := filepath.Join(*hooks, sp.hookSrc)
			if _, err := os.Stat(src); err != nil {
				die("missing hook source %s", src)
			}
			replace[filepath.Join(dir, sp.hookName)] = src
		}
		if sp.testHook != "" {
			src := filepath.Join(*hooks, sp.testHook)
			if _, err := os.Stat(src); err == nil {
				replace[filepath.Join(dir, sp.testName)] = src
			}
		}
	}
	b, _ := json.MarshalIndent(map[string]any{"Replace": replace}, "", " ")
	if err := os.WriteFile(filepath.Join(*out, "overlay.json"), b, 0o644); err != nil {
		die("%v", err)
	}
	rb, _ := json.MarshalIndent(report, "", " ")
	_ = os.WriteFile(filepath.Join(*out, "report.json"), rb, 0o644)
	fmt.Println(string(rb))
}

// rewritePackage parses the non-test files of one package directory, collects
// the names of map-typed struct fields and rewrites range loops over them.
func rewritePackage(dir, outDir string, replace map[string]string) (int, []string, error) {
	fset := token.NewFileSet()
	ents, err := os.ReadDir(dir)
	if err != nil {
		return 0, nil, err
	}
	type pf struct {
		path string
		f    *ast.File
	}
	var files []pf
	for _, e := range ents {
		name := e.Name()
		if e.IsDir() || !strings.HasSuffix(name, ".go") || strings.HasSuffix(name, "_test.go") {
			continue
		}
		p := filepath.Join(dir, name)
		f, err := parser.ParseFile(fset, p, nil, parser.ParseComments)
		if err != nil {
			return 0, nil, err
		}
		files = append(files, pf{p, f})
	}
	mapFields := map[string]bool{}
	for _, x := range files {
		ast.Inspect(x.f, func(n ast.Node) bool {
			st, ok := n.(*ast.StructType)
			if !ok {
				return true
			}
			for _, fld := range st.Fields.List {
				if _, ok := fld.Type.(*ast.MapType); ok {
					for _, nm := range fld.Names {
						mapFields[nm.Name] = true
					}
				}
			}
			return true
		})
	}
	var names []string
	for k := range mapFields {
		names = append(names, k)
	}
	sort.Strings(names)

	total := 0
	for _, x := range files {
		n := 0
		ast.Inspect(x.f, func(node ast.Node) bool {
			rs, ok := node.(*ast.RangeStmt)
			if !ok {
				return true
			}
			sel, ok := rs.X.(*ast.SelectorExpr)
			if !ok || !mapFields[sel.Sel.Name] {
				return true
			}
			rs.X = &ast.CallExpr{Fun: ast.NewIdent("verifMapOrder"), Args: []ast.Expr{sel}}
			n++
			return true
		})
		if n == 0 {
			continue
		}
		total += n
		var buf bytes.Buffer
		if err := printer.Fprint(&buf, fset, x.f); err != nil {
			return 0, nil, err
		}
		if err := os.MkdirAll(outDir, 0o755); err != nil {
			return 0, nil, err
		}
		dst := filepath.Join(outDir, filepath.Base(x.path))
		if err := os.WriteFile(dst, buf.Bytes(), 0o644); err != nil {
			return 0, nil, err
		}
		replace[x.path] = dst
	}
	return total, names, nil
}
