package verifsim

// safetyRun: the hostile-network family, one run in six with a directed restart prefix, one
// in twenty-four with the directed early-commit prefix (anti-MEV), one in ~thirty with the
// ledger-ahead prefix (block sync before Reset at a primary, dynamic block time).
func safetyRun(arm func(*Sim)) func(*Tape, bool) *RunResult {
	return mixRun(6, directedRestartRun(arm, 1), mixRun(20, directedEarlyCommitRun(arm), mixRun(20, directedPrimaryRestartRun(arm), mixRun(25, directedLedgerAheadRun(arm), simpleRun(SafetyScenario, arm)))))
}

func init() {
	register(&PropSpec{
		ID: "C01",
		Run: mixRun(12, RefRun(refHostile), safetyRun(func(s *Sim) {
			s.AddOracle(NewOracleC01(s))
		})),
		Rule: "a run is non-trivial iff >= 2 honest nodes accepted a block at one height while a faulty participant existed or a partition/faction fault was active; distinct = distinct ordered delivery sequences (hash of (recipient, payload hash) in delivery order)",
	})
	register(&PropSpec{
		ID: "C02",
		Run: safetyRun(func(s *Sim) {
			s.AddOracle(NewOracleC02(s))
		}),
		Rule: "a run is non-trivial iff some node accepted a (pre)block while it held a (pre)commit that reached it before its proposal, from another view, or that does not verify; distinct = distinct ordered delivery sequences",
	})
	register(&PropSpec{ID: "C03", Run: safetyRun(func(s *Sim) { s.AddOracle(NewOracleC03(s)) }),
		Rule: "a run is non-trivial iff a node that had broadcast a commit or pre-commit subsequently received a timeout, a change-view request or recovery traffic at that height; distinct = distinct ordered delivery sequences"})
	register(&PropSpec{ID: "C04", Run: safetyRun(func(s *Sim) { s.AddOracle(NewOracleC04(s)) }),
		Rule: "a run is non-trivial iff some commit/pre-commit was sent with exactly M matching preparations or some view was entered with change-view requests from exactly M validators; distinct = distinct ordered delivery sequences"})
	register(&PropSpec{ID: "C05", Run: safetyRun(func(s *Sim) { s.AddOracle(NewOracleC05(s)) }),
		Rule: "a run is non-trivial iff an API call hit a decided-but-not-reset node, or a Reset skipped heights or changed the validator count, or a payload for a future height arrived from a validator that only the grown validator list of that height contains; distinct = distinct ordered delivery sequences"})
	register(&PropSpec{ID: "C07", Run: mixRun(8, directedRestartRun(func(s *Sim) { s.AddOracle(NewOracleC07(s)) }, 3), simpleRun(AMEVScenario, func(s *Sim) { s.AddOracle(NewOracleC07(s)) })),
		Rule: "a run is non-trivial iff a (pre)commit arrived before its proposal, a (pre)block callback failed, or the run crossed the enabling height; distinct = distinct ordered delivery sequences"})
	register(&PropSpec{ID: "C10", Run: safetyRun(func(s *Sim) { s.AddOracle(NewOracleC10(s)) }),
		Rule: "a run is non-trivial iff a nested view change (two or more views inside one call) or a recovery-request timeout (skip change view) occurred; distinct = distinct ordered delivery sequences"})
	register(&PropSpec{ID: "C12", Run: simpleRun(TxScenario, func(s *Sim) { s.AddOracle(NewOracleC12(s)) }),
		Rule: "a run is non-trivial iff (a) a proposal with missing transactions was accepted (and requested) inside an OnTransaction call, i.e. while completing an earlier proposal (counted separately as oracle_notes.obligation_opened_inside_OnTransaction), or (b) the last supplied transaction completed a block that failed verification and was answered by a change-view request, or (c) a requested transaction was supplied after a timeout or another consensus payload had had an effect on the node; distinct = distinct ordered delivery sequences"})
	register(&PropSpec{ID: "C13", Run: runC13,
		Rule: "each evaluation runs one tape twice: with the special node (a validator with the watch-only flag, else an observer) running under the direct oracle (no Broadcast / Block.Sign / PreBlock.SetData ever), and with that node never started; the other nodes' canonical traces must be identical; non-trivial iff a validator with the watch-only flag set was the primary of its current height and view at least once; distinct = distinct ordered delivery sequences"})
	register(&PropSpec{ID: "C08", Run: mixRun(10, RefRun(refSync), simpleRun(SyncScenario, func(s *Sim) { s.AddOracle(NewOracleC08(s)); s.AddOracle(NewOracleC01(s)) })),
		Rule: "a run is non-trivial iff some payload reached a node before it had entered the height or view it belongs to (it was cached) in a run whose delivery order is tape-permuted; distinct = distinct ordered delivery sequences"})
	register(&PropSpec{ID: "C09", Run: mixRun(12, RefRun(refSilent), mixRun(8, directedLockRun(func(s *Sim) { s.AddOracle(NewOracleC09(s)); s.AddOracle(NewOracleC01(s)) }), simpleRun(GSTScenario, func(s *Sim) { s.AddOracle(NewOracleC09(s)); s.AddOracle(NewOracleC01(s)) }))),
		Rule: "a run is non-trivial iff validators were silent from the start, or a partition healed, or a validator restarted, before the network became synchronous; distinct = distinct ordered delivery sequences"})
	register(&PropSpec{ID: "C15", Run: simpleRun(ClockScenario, func(s *Sim) { s.AddOracle(NewOracleC15(s)) }),
		Rule: "a run is non-trivial iff some proposal was made while the proposer's clock was not ahead of the previous block's timestamp (skew or backward step); distinct = distinct ordered delivery sequences"})
	register(&PropSpec{ID: "C16", Run: simpleRun(DynScenario, func(s *Sim) { s.AddOracle(NewOracleC16(s)); s.AddOracle(NewOracleC01(s)) }),
		Rule: "a run is non-trivial iff the extension was on with maximum > minimum block time and some proposal with transactions was made strictly inside the extended wait (after minimum + tolerance, before maximum - tolerance), i.e. a transaction arrived during the extended wait and was proposed promptly; distinct = distinct ordered delivery sequences"})
	register(&PropSpec{ID: "C11", Run: runC11,
		Rule: "evaluations alternate between (a) hostile cluster runs with inadmissible-input probes and redeliveries injected at tape-chosen points and (b) API fuzz sequences on 1-4 nodes with arbitrary well-typed payloads and callback verdicts; a run of kind (a) is non-trivial iff a probe hit a node that was mid-round (proposal seen, not decided), a run of kind (b) iff at least 20 calls took effect (caused a callback); distinct = distinct ordered input sequences"})
}
