package verifsim

import (
	"fmt"

	"github.com/nspcc-dev/dbft"
)

// C09 - recovery liveness (bounded): once faults stop and the network is
// synchronous, every live validator's ledger advances by at least K heights
// within H = 400*T simulated time, and in the "silent from the start,
// synchronous from the start" sub-scenario each height is decided in a view
// no higher than the number of silent validators.
type OracleC09 struct {
	BaseOracle
	s      *Sim
	base   uint32
	armed  bool
	K      uint32
	silent int
	// primaries that entered their view while processing a recovery message (the library then
	// arms the backup timeout for them instead of proposing at once), per (height, view)
	viaRecovery map[hv]bool
	// "nodes catch up from recovery messages": set before a recovery message is handed to a
	// node that has nothing of its current view yet and must take the proposal out of it
	recPre *Payload
	liftTo int // >= 0: the receiver of this call must end it in this view or above (second step rule)
}

func NewOracleC09(s *Sim) *OracleC09 {
	o := &OracleC09{s: s, K: 3, viaRecovery: map[hv]bool{}, liftTo: -1}
	for _, k := range s.sc.Fault {
		if k == FSilent {
			o.silent++
		}
	}
	snapshot := func() {
		o.armed = true
		o.base = 0
		for _, n := range s.nodes {
			if n.tip().Idx > o.base {
				o.base = n.tip().Idx
			}
		}
		s.tracef("C09: progress obligation armed, base height %d", o.base)
	}
	if s.sc.GST <= 0 {
		o.armed, o.base = true, s.sc.Start
	}
	s.gstFn = snapshot
	s.doneFn = func() bool {
		if !o.armed {
			return false
		}
		for _, n := range o.live() {
			if n.tip().Idx < o.base+o.K {
				return false
			}
		}
		return true
	}
	return o
}
func (o *OracleC09) Name() string { return "C09" }

// live validators: honest-code, single-instance nodes that are up (or about to
// be restarted: a node that is down at the end is not live).
func (o *OracleC09) live() []*Node {
	var l []*Node
	for _, n := range o.s.nodes {
		if n.kind == FSplit || !n.up || n.ident >= o.s.sc.NIdent {
			continue
		}
		l = append(l, n)
	}
	return l
}

func (o *OracleC09) OnOut(n *Node, st *Step, out *Out) {
	if out.Kind != OProcessBlock || o.s.sc.Sub != 0 {
		return
	}
	if int(n.d.ViewNumber) > o.silent {
		// Known finding V1: a primary that enters its view while a recovery message is being
		// processed gets the backups' timeout instead of proposing at once (dbft.go
		// initializeConsensus, `IsPrimary() && !recovering`), so everybody times out together
		// and one view is wasted.  Classed known only if that happened at this height in a
		// view the silent validators do not account for.
		class := "view_higher_than_silent_count"
		wasted := 0 // each primary that entered its view through a recovery message explains one view
		for v := byte(0); v < n.d.ViewNumber; v++ {
			if o.viaRecovery[hv{out.Hdr.Idx, v}] {
				wasted++
			}
		}
		if wasted > 0 && int(n.d.ViewNumber) <= o.silent+wasted {
			class = "view_wasted_primary_entered_view_by_recovery"
		}
		o.s.Violate("C09", class, fmt.Sprintf("%s decided height %d in view %d with %d validators silent from the start on a synchronous network", n, out.Hdr.Idx, n.d.ViewNumber, o.silent), n.id)
	}
}

// liftRule: "nodes catch up from recovery messages" also means the view.  A recovery message
// that an honest validator sent from view v >= 1 carries the M change-view requests that took
// it there; a voting validator in a lower view that has no (pre)commit of its own and is given
// that message is in a higher view than before when the call returns (in view v, unless it
// already held requests for a view in between).
func (o *OracleC09) liftRule(n *Node, st *Step) {
	o.liftTo = -1
	s := o.s
	d := n.d
	if d == nil || st.Op != OpReceive || st.P == nil || st.P.T != dbft.RecoveryMessageType || !n.judged() {
		return
	}
	p := st.P
	rm, ok := p.Body.(*RecMsg)
	if !ok || rm.Lax || p.H != d.BlockIndex || p.V <= d.ViewNumber || int(p.Idx) >= len(d.Validators) || int(p.Idx) == d.MyIndex {
		return
	}
	if d.MyIndex < 0 || n.flagWO || n.accepted || d.BlockSent() || d.CommitSent() || d.PreCommitSent() {
		return
	}
	honest := false
	for _, m := range s.nodes {
		if m.kind == FHonest && s.sc.IndexAt(p.H, m.ident) == int(p.Idx) {
			honest = true
		}
	}
	if !honest {
		return
	}
	for _, a := range s.authentic {
		if a.T == dbft.RecoveryMessageType && a.H == p.H && a.V == p.V && a.Idx == p.Idx && a.Hash() == p.Hash() {
			o.liftTo = int(p.V)
			return
		}
	}
}

func (o *OracleC09) BeforeCall(n *Node, st *Step) {
	o.recPre = nil
	o.liftRule(n, st)
	s := o.s
	d := n.d
	if d == nil || st.Op != OpReceive || st.P == nil || st.P.T != dbft.RecoveryMessageType || s.sc.VerdictPM > 0 {
		return
	}
	p := st.P
	rm, ok := p.Body.(*RecMsg)
	if !ok || rm.Lax || rm.PrepReqP == nil || p.H != d.BlockIndex || p.V < d.ViewNumber || int(p.Idx) >= len(d.Validators) {
		return
	}
	// (catching up means from the OTHERS' recovery messages: what a restarted validator does
	// with an echo of a recovery message it sent itself before the crash is not judged)
	if int(p.Idx) == d.MyIndex {
		return
	}
	// the receiver: a voting validator with no vote of its own at this height ...
	if d.MyIndex < 0 || n.flagWO || n.accepted || d.BlockSent() || d.CommitSent() || d.PreCommitSent() {
		return
	}
	// ... which, if it is already in the message's view, holds nothing of it and is not leaving it
	// (if it is in a lower view, the change-view requests inside the message may bring it up)
	if p.V == d.ViewNumber && (d.RequestSentOrReceived() || d.ViewChanging()) {
		return
	}
	// the proposal inside: the authentic one of that view's primary, which is an honest node
	e := rm.PrepReqP
	prim := d.GetPrimaryIndex(p.V)
	if e.T != dbft.PrepareRequestType || e.H != p.H || e.V != p.V || uint(e.Idx) != prim || !witnessOK(e, d.Validators) {
		return
	}
	// (... or the receiver itself: a primary that lost its state takes its own earlier proposal
	// back, instead of proposing a second time for the same view)
	honest := false
	for _, m := range s.nodes {
		if (m.kind == FHonest || m == n) && s.sc.IndexAt(p.H, m.ident) == int(prim) {
			honest = true
		}
	}
	if !honest {
		return
	}
	for _, a := range s.authentic {
		if a.T == dbft.PrepareRequestType && a.H == e.H && a.V == e.V && a.Idx == e.Idx && a.Hash() == e.Hash() {
			o.recPre = e
			return
		}
	}
}

func (o *OracleC09) AfterCall(n *Node, st *Step) {
	if v := o.liftTo; v >= 0 {
		o.liftTo = -1
		if d := n.d; d != nil && st.Panic == nil && st.PostBI == st.PreBI && !n.accepted && !d.BlockSent() {
			// (at least one view up: a receiver that already held requests for a view in between
			// completes that quorum first, the move consumes the request that completed it and the
			// rest of the message is one request short of the next quorum - the next message does it)
			if st.PostV <= st.PreV {
				o.s.Violate("C09", "not_lifted_by_recovery_message", fmt.Sprintf("%s at height %d view %d (no vote of its own) was given the recovery message that honest validator %d sent from view %d and is still in view %d afterwards: the message must carry the change-view requests that justify its sender's view, a lagging validator cannot catch up from recovery messages otherwise", n, st.PreBI, st.PreV, st.P.Idx, v, st.PostV), n.id)
				return
			}
			if int(st.PostV) >= v {
				o.s.note("lifted_to_the_senders_view_by_recovery_message")
			} else {
				o.s.note("lifted_part_of_the_way_by_recovery_message")
			}
		}
	}
	if e := o.recPre; e != nil {
		o.recPre = nil
		if d := n.d; d != nil && st.Panic == nil && st.PostBI == st.PreBI && st.PostV == e.V && !n.accepted && !d.BlockSent() && !d.ViewChanging() && (st.PreV == e.V || (!d.CommitSent() && !d.PreCommitSent())) {
			// (when the view changes inside the call, an own earlier vote that a restarted validator had in its
			// cache is replayed first and locks it: that state is legal, observation O7)
			if !d.RequestSentOrReceived() {
				o.s.Violate("C09", "proposal_in_recovery_message_not_taken", fmt.Sprintf("%s at height %d (view %d before the call, view %d after it) had no vote of its own and nothing of view %d, was given a recovery message of view %d carrying the primary's authentic proposal %s, and holds no proposal afterwards: it cannot catch up from recovery messages", n, st.PreBI, st.PreV, st.PostV, e.V, e.V, e), n.id)
				return
			}
			if st.PreV < e.V {
				o.s.note("proposal_taken_from_recovery_message_after_view_change_inside_it")
			} else {
				o.s.note("proposal_taken_from_recovery_message")
			}
		}
	}
	if n.d == nil || st.Op != OpReceive || st.P == nil || st.P.T != dbft.RecoveryMessageType {
		return
	}
	if st.PostBI == st.PreBI && st.PostV > st.PreV && n.d.IsPrimary() && !n.d.RequestSentOrReceived() {
		o.viaRecovery[hv{st.PostBI, st.PostV}] = true
		o.s.note("primary_entered_view_by_recovery")
	}
}

func (o *OracleC09) AtEnd(s *Sim) {
	if !o.armed {
		return
	}
	if s.st.Fault["restart"]+s.st.Fault["heal"]+o.silent > 0 {
		s.st.Exercised = true
	}
	for _, n := range o.live() {
		if n.tip().Idx < o.base+o.K {
			state := ""
			for _, m := range o.live() {
				if m.d != nil {
					state += fmt.Sprintf(" %s:tip=%d,h=%d,v=%d,commit=%v,vc=%v;", m, m.tip().Idx, m.d.BlockIndex, m.d.ViewNumber, m.d.CommitSent() || m.d.PreCommitSent(), m.d.ViewChanging())
				}
			}
			// Classification of the stall.  Known protocol-level lock of dBFT 2.0: a
			// primary that restarted with empty state proposed twice for one view, some
			// live nodes are commit-locked on one proposal while others hold the other,
			// so neither M commits nor M change-view requests can ever be collected.
			class := "no_progress_after_faults_stopped"
			// the height the cluster is stuck at: the one right above the highest ledger tip
			var minH uint32
			for _, m := range o.live() {
				if m.tip().Idx+1 > minH {
					minH = m.tip().Idx + 1
				}
			}
			// proposals held per view (a node holds the proposal of the view it is in), and
			// whether somebody is locked to that very view
			propsAt := map[byte]map[Hash]bool{}
			lockedAt := map[byte]bool{}
			locked := false
			for _, m := range o.live() {
				if m.d == nil || m.d.BlockIndex != minH {
					continue
				}
				if q := m.d.PreparationPayloads[m.d.PrimaryIndex]; q != nil && q.Type() == dbft.PrepareRequestType {
					if propsAt[m.d.ViewNumber] == nil {
						propsAt[m.d.ViewNumber] = map[Hash]bool{}
					}
					propsAt[m.d.ViewNumber][q.Hash()] = true
				}
				if lv, ok := ownLockView(m); ok {
					locked = true
					lockedAt[lv] = true
				}
			}
			// L1 needs two different proposals for ONE view, somebody locked to that view, and a
			// primary of that view that lost its state at this height (that is how an honest
			// primary comes to propose twice)
			splitView := false
			for v, ps := range propsAt {
				if len(ps) < 2 || !lockedAt[v] {
					continue
				}
				for _, m := range s.nodes {
					if m.kind == FAmnesia && m.amnesiaAt[minH] && s.sc.IndexAt(minH, m.ident) == primaryOf(minH, v, len(s.sc.ValsAt(minH))) {
						splitView = true
					}
				}
			}
			views := map[byte]bool{}
			var lockView byte = 255
			var maxView byte
			for _, m := range o.live() {
				if m.d == nil || m.d.BlockIndex != minH {
					continue
				}
				views[m.d.ViewNumber] = true
				if m.d.ViewNumber > maxView {
					maxView = m.d.ViewNumber
				}
				if lv, ok := ownLockView(m); ok && lv < lockView {
					lockView = lv
				}
			}
			// Who could still move things on?  "free": not locked by an own (pre)commit.
			// "willing": free and - by the documented rule, recomputed here from the node's
			// tables, not taken from the library's counters - counting at most F validators as
			// committed or lost, so that its timeout produces a change-view request and not a
			// recovery request.  "at the top": in the highest view, free or locked to that view.
			free, willing, atTop, mQ := 0, 0, 0, 0
			primAtTop := false
			for _, m := range o.live() {
				if m.d == nil || m.d.BlockIndex != minH {
					continue
				}
				mQ = m.d.M()
				lv, isLocked := ownLockView(m)
				if !isLocked {
					free++
					nc, nf := 0, 0
					for i := range m.d.Validators {
						if m.d.CommitPayloads[i] != nil || m.d.PreCommitPayloads[i] != nil {
							nc++
						} else if ls := m.d.LastSeenMessage[i]; ls == nil || ls.Height < m.d.BlockIndex || ls.View < m.d.ViewNumber {
							nf++
						}
					}
					if nc+nf <= m.d.F() {
						willing++
					}
				}
				// (a restarted validator that only got its own earlier (pre)commit back, holds no
				// proposal and ignores the recovery messages that carry it - observation O7 - can
				// neither commit nor supply its preparation to the others, and does not count)
				// Only honest validators are counted on: one that restarted with empty state is
				// within the fault budget, and what it sends after the restart (a second vote in
				// another view, for instance) may be of no use to the others.
				if m.kind == FHonest && m.d.ViewNumber == maxView && (!isLocked || (lv == maxView && m.d.RequestSentOrReceived())) {
					atTop++
					if m.d.IsPrimary() {
						primAtTop = true
					}
				}
			}
			// The essence of the known lock: an HONEST validator is (pre)commit-locked in a view
			// below the highest one - lost for every later view - and fewer than M honest
			// validators are left that are not; progress would need the faulty ones' help.
			honestLockedLower, honestUsable := 0, 0
			var honestTop byte // the highest view an HONEST validator is in (a restarted faulty one may have run ahead)
			for _, m := range o.live() {
				if m.kind == FHonest && m.d != nil && m.d.BlockIndex == minH && m.d.ViewNumber > honestTop {
					honestTop = m.d.ViewNumber
				}
			}
			for _, m := range o.live() {
				if m.kind != FHonest || m.d == nil || m.d.BlockIndex != minH {
					continue
				}
				if lv, isLocked := ownLockView(m); isLocked && lv < honestTop {
					honestLockedLower++
				} else {
					honestUsable++
				}
			}
			if splitView && locked && free < mQ {
				class = "stall_commit_lock_with_split_proposals"
			} else if locked && lockView < maxView && ((honestLockedLower > 0 && honestUsable < mQ) || (willing < mQ && (!primAtTop || atTop < mQ))) {
				// Known protocol-level lock of dBFT 2.0 (neo-modules issue 792, discussed in
				// the repository's formal-models/README): some validators are (pre)commit-
				// locked in a lower view while the others have moved to a higher one; fewer
				// than M validators are willing to ask for the next view, and the highest
				// view cannot complete (its primary is not there, or fewer than M are).
				class = "stall_commit_lock_across_views"
			} else if locked && o.crashLock(minH) {
				// Known protocol-level lock of dBFT 2.0: some validators committed in view v, a
				// validator that had already been heard at this height stopped for good (so it
				// is not counted as lost), and the remaining ones - fewer than M - ask for a
				// view change and therefore ignore the preparations that would let them commit.
				class = "stall_commit_lock_with_crashed_node"
			}
			s.Violate("C09", class, fmt.Sprintf("%s is at height %d, %d expected within %d*T after GST (base %d, run ended by %q at %.1f s):%s", n, n.tip().Idx, o.base+o.K, 400, o.base, s.st.Truncated, float64(s.now)/1e9, state), n.id)
			return
		}
	}
}

// crashLock recognises the state "commit-locked validators + stopped validator(s) + fewer
// than M view-changing validators each of which counts at most F committed-or-lost nodes
// (a stopped validator that was heard at this height is not counted as lost)": by the rules
// of dBFT 2.0 nothing can move in it.
func (o *OracleC09) crashLock(h uint32) bool {
	var down []*Node
	for _, n := range o.s.nodes {
		if n.kind != FSplit && n.ident < o.s.sc.NIdent && !n.up {
			down = append(down, n)
		}
	}
	if len(down) == 0 {
		return false
	}
	free := 0
	view := -1
	// the view of the honest live validators
	top := -1
	for _, m := range o.live() {
		if m.kind == FHonest && m.d != nil && int(m.d.ViewNumber) > top {
			top = int(m.d.ViewNumber)
		}
	}
	for _, m := range o.live() {
		if m.d == nil || m.d.BlockIndex != h {
			return false
		}
		// a budgeted faulty validator that restarted and is locked by its own earlier
		// (pre)commit to a view below the one the honest validators are in is as good as
		// stopped: it never leaves that view, and having been heard it is not counted as lost
		if lv, isLocked := ownLockView(m); m.kind != FHonest && isLocked && int(lv) < top && int(m.d.ViewNumber) < top {
			continue
		}
		if view >= 0 && int(m.d.ViewNumber) != view {
			return false
		}
		view = int(m.d.ViewNumber)
		if m.d.CommitSent() || m.d.PreCommitSent() {
			continue
		}
		free++
		nc, nf := 0, 0 // recomputed by the documented rule, not read from the library's counters
		for i := range m.d.Validators {
			if m.d.CommitPayloads[i] != nil || m.d.PreCommitPayloads[i] != nil {
				nc++
			} else if ls := m.d.LastSeenMessage[i]; ls == nil || ls.Height < m.d.BlockIndex || ls.View < m.d.ViewNumber {
				nf++
			}
		}
		if !m.d.ViewChanging() || nc+nf > m.d.F() {
			return false
		}
	}
	return free > 0 && free < o.live()[0].d.M()
}

// ownLockView: the view of the node's own (pre)commit, i.e. the view it is locked to (a
// restarted validator that got its earlier vote back is locked to that vote's view, whatever
// view it is in now).
func ownLockView(m *Node) (byte, bool) {
	if m.d == nil || m.d.MyIndex < 0 {
		return 0, false
	}
	if p := m.d.CommitPayloads[m.d.MyIndex]; p != nil {
		return p.ViewNumber(), true
	}
	if p := m.d.PreCommitPayloads[m.d.MyIndex]; p != nil {
		return p.ViewNumber(), true
	}
	return 0, false
}
