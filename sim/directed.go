package verifsim

import (
	"time"

	"github.com/nspcc-dev/dbft"
)

// Directed-prefix runs.  A uniformly random schedule reaches "a validator voted, lost its
// state, and was taken to a higher view before its own vote came back to it" a few times in
// ten thousand runs.  A directed run builds such a state with a short hand-delivered prefix
// whose parameters (height, roles, anti-MEV, order of the echo) come from the tape, and then
// hands the cluster over to the ordinary seeded network for the rest of the run.  The oracles
// are the same as in every other run; the prefix only uses legal network behaviour (delays,
// losses, one crash/restart of one budgeted faulty validator of N=4 or N=7).

func directedScenario(t *Tape, amevOf3 uint64) *Scenario {
	amev := int64(-1)
	if t.Chance(SScen, amevOf3, 3) {
		amev = 0
	}
	n := 4
	if t.Chance(SScen, 1, 4) {
		n = 7
	}
	sc := scriptScenario(n, amev)
	sc.Family = "directed"
	sc.Start = uint32(t.Range(SScen, 0, 9))
	sc.Heights = 2
	sc.TPB = time.Duration(pick(t, SScen, 1000, 2000, 700)) * time.Millisecond
	sc.LatBase = pick(t, SScen, int64(1), 5, 20) * int64(time.Millisecond)
	sc.LatJitter = pick(t, SScen, int64(50), 10, 100, 200) * int64(time.Millisecond)
	sc.HeavyTail = t.Chance(SScen, 1, 2)
	sc.DropPM = pick(t, SScen, uint64(0), 10, 50)
	sc.DupPM = pick(t, SScen, uint64(0), 50)
	sc.SyncEvery = int64(sc.TPB) * 4
	sc.MaxEvents = 20000
	sc.MaxTime = int64(sc.TPB) * 120
	sc.MapOrder = int(t.Draw(SScen, 3))
	x := int(t.Draw(SScen, uint64(n)))
	sc.Fault[x] = FAmnesia
	return sc
}

// directedRestartRun: see the comment at the top of the file.
func directedRestartRun(arm func(*Sim), amevOf3 uint64) func(*Tape, bool) *RunResult {
	return func(t *Tape, record bool) *RunResult {
		sc := directedScenario(t, amevOf3)
		s := NewSim(sc, t)
		s.record = record
		s.manual = true
		arm(s)
		s.installMapPerm()
		defer func() { dbft.VerifMapPerm = nil }()
		for _, n := range s.nodes {
			n.boot()
		}
		if s.directedRestartPrefix(true) {
			s.note("directed_prefix_completed")
		} else {
			s.note("directed_prefix_abandoned")
		}
		s.manual = false
		for i := range s.nodes {
			s.after(sc.SyncEvery+int64(i), &Event{Kind: EvSyncPoll, Node: i})
		}
		if s.viol == nil {
			s.loop()
		}
		return &RunResult{Viol: s.viol, St: s.st, Scen: sc.Summary(), Trace: s.trace, SimCount: 1}
	}
}

func (s *Sim) manualTimeout(n *Node) {
	if n.d == nil {
		return
	}
	s.now += int64(time.Millisecond)
	h, v := n.d.BlockIndex, n.d.ViewNumber
	n.call(&Step{Op: OpTimeout, TH: h, TV: v}, func() { n.d.OnTimeout(h, v) })
}

// sentAt is sent() restricted to one height and view.
func (s *Sim) sentAt(n *Node, t dbft.MessageType, h uint32, v byte) *Payload {
	for i := len(s.authentic) - 1; i >= 0; i-- {
		p := s.authentic[i]
		if p.T == t && p.sender == n.id && p.H == h && p.V == v {
			return p
		}
	}
	return nil
}

func (s *Sim) directedRestartPrefix(crash bool) bool {
	sc := s.sc
	h := sc.Start + 1
	var x *Node
	for _, n := range s.nodes {
		if n.kind == FAmnesia {
			x = n
		}
	}
	if x == nil || x.d == nil {
		return false
	}
	var prim *Node
	var others []*Node
	for _, n := range s.nodes {
		if n.d == nil {
			return false
		}
		if n.d.IsPrimary() {
			prim = n
		}
		if n != x {
			others = append(others, n)
		}
	}
	if prim == nil {
		return false
	}
	// view 0: the proposal
	if s.sentAt(prim, dbft.PrepareRequestType, h, 0) == nil {
		s.manualTimeout(prim)
	}
	req := s.sentAt(prim, dbft.PrepareRequestType, h, 0)
	if req == nil {
		return false
	}
	// X alone collects M preparations and (pre)commits
	m := x.d.M()
	if x == prim {
		for _, b := range others[:m-1] {
			s.give(b, req)
			r := s.sentAt(b, dbft.PrepareResponseType, h, 0)
			if r == nil {
				return false
			}
			s.give(x, r)
		}
	} else {
		var rs []*Payload
		for _, b := range others {
			if b == prim || len(rs) >= m-2 {
				continue
			}
			s.give(b, req)
			r := s.sentAt(b, dbft.PrepareResponseType, h, 0)
			if r == nil {
				return false
			}
			rs = append(rs, r)
		}
		reqFirst := s.tape.Chance(SFault, 1, 2)
		if reqFirst {
			s.give(x, req)
		}
		for _, r := range rs {
			s.give(x, r)
		}
		if !reqFirst {
			s.give(x, req)
		}
	}
	lockT := dbft.CommitType
	if sc.AMEV >= 0 && int64(h) >= sc.AMEV {
		lockT = dbft.PreCommitType
	}
	vote := s.sentAt(x, lockT, h, 0)
	if vote == nil || s.viol != nil {
		return false
	}
	// X dies (or just is cut off); nobody got its vote
	if crash {
		s.fault("crash_between_calls")
		x.crash()
	}
	// the others time out, hear each other, and agree on view 1
	for round := 0; round < 3; round++ {
		done := true
		for _, n := range others {
			if n.d.ViewNumber == 0 {
				done = false
			}
		}
		if done {
			break
		}
		var batch []*Payload
		for _, n := range others {
			if n.d.ViewNumber != 0 {
				continue
			}
			before := len(s.authentic)
			s.manualTimeout(n)
			for _, p := range s.authentic[before:] {
				if p.sender == n.id && (p.T == dbft.ChangeViewType || p.T == dbft.RecoveryRequestType) {
					batch = append(batch, p)
				}
			}
		}
		for _, p := range batch {
			for _, n := range others {
				if n.id != p.sender {
					s.give(n, p)
				}
			}
		}
		if s.viol != nil {
			return false
		}
	}
	var cvs []*Payload
	for _, n := range others {
		if n.d.BlockIndex != h || n.d.ViewNumber != 1 {
			return false
		}
		cv := s.sentAt(n, dbft.ChangeViewType, h, 0)
		if cv == nil {
			return false
		}
		cvs = append(cvs, cv)
	}
	if !crash {
		return s.viol == nil
	}
	// X comes back with empty state; its own old vote is still travelling
	s.fault("restart")
	x.boot()
	echoFirst := s.tape.Chance(SFault, 1, 4)
	if echoFirst {
		s.fault("echo_of_own_payload_after_restart")
		s.give(x, vote)
	}
	for _, cv := range cvs {
		s.give(x, cv)
	}
	if !echoFirst {
		s.fault("echo_of_own_commit_after_view_change")
		s.give(x, vote)
	}
	return s.viol == nil
}

// directedLockRun (C09): the same prefix without the crash - one validator is (pre)commit-
// locked alone in view 0, the others have agreed on view 1 - followed by a black-out that makes
// view 1 fail as well, then synchrony.  The others (M of them when N=4) must go on to view 2
// and decide; the locked one catches up from the ledger.
func directedLockRun(arm func(*Sim)) func(*Tape, bool) *RunResult {
	return func(t *Tape, record bool) *RunResult {
		sc := directedScenario(t, 1)
		sc.Family = "gst"
		sc.Sub = 3 // faults before GST: the view bound for validators silent from the start is not judged
		sc.Heights = 3
		sc.Delta = int64(sc.TPB) / 50
		sc.GST = (3 + t.Range(SScen, 0, 6)) * int64(sc.TPB)
		sc.MaxTime = sc.GST + 400*int64(sc.TPB)
		sc.MaxEvents = 400000
		sc.SyncEvery = int64(sc.TPB)
		sc.DropPM, sc.DupPM, sc.HeavyTail = 0, 0, false
		crash := t.Chance(SScen, 1, 4)
		s := NewSim(sc, t)
		s.record = record
		s.manual = true
		arm(s)
		s.installMapPerm()
		defer func() { dbft.VerifMapPerm = nil }()
		for _, n := range s.nodes {
			n.boot()
		}
		if s.directedRestartPrefix(crash) {
			s.note("directed_prefix_completed")
		} else {
			s.note("directed_prefix_abandoned")
		}
		s.manual = false
		// black-out until GST: whatever view 1 tries is lost
		for i := range s.cut {
			s.cut[i] = true
		}
		s.fault("isolate_nodes")
		s.push(&Event{At: sc.GST, Kind: EvPartHeal, Aux: 1})
		for i := range s.nodes {
			s.after(sc.SyncEvery+int64(i), &Event{Kind: EvSyncPoll, Node: i})
		}
		if s.viol == nil {
			s.loop()
		}
		return &RunResult{Viol: s.viol, St: s.st, Scen: sc.Summary(), Trace: s.trace, SimCount: 1}
	}
}
