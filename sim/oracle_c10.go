package verifsim

import "fmt"

// C10 - no lost wake-up: after every API call an undecided validator has a
// timer armed for exactly its current height and view.
type OracleC10 struct {
	BaseOracle
	s *Sim
}

func NewOracleC10(s *Sim) *OracleC10 { return &OracleC10{s: s} }
func (o *OracleC10) Name() string     { return "C10" }

func (o *OracleC10) viol(n *Node, class, f string, a ...any) {
	o.s.Violate("C10", class, n.String()+": "+fmt.Sprintf(f, a...), n.id)
}

func (o *OracleC10) AfterCall(n *Node, st *Step) {
	if n.d == nil || st.Panic != nil || n.crashing || n.fatal {
		return
	}
	d := n.d
	s := o.s
	if int(d.ViewNumber) >= s.sc.MaxViews {
		s.st.Truncated = "max_views"
		s.stopped = true
		return
	}
	validator := s.sc.IndexAt(d.BlockIndex, n.ident) >= 0
	// "has not yet accepted a block" is the harness's own record (the application's
	// ProcessBlock returned success since the last Start/Reset), not the library's flag
	if !validator || n.flagWO || n.accepted {
		return
	}
	for i := range st.Outs {
		if out := &st.Outs[i]; out.Kind == OTimerReset && out.D < 0 {
			o.viol(n, "negative_timer_duration", "%s requested Timer.Reset(%d, %d, %v)", st.describe(), out.H, out.V, out.D)
			return
		}
	}
	t := n.tm
	if t.resets == 0 {
		o.viol(n, "timer_never_armed", "%s returned with no timer armed at height %d view %d", st.describe(), d.BlockIndex, d.ViewNumber)
		return
	}
	if !t.armed || t.consumed {
		o.viol(n, "no_timer_pending", "%s returned at height %d view %d with no expiry pending (the last one was consumed and nothing re-armed it)", st.describe(), d.BlockIndex, d.ViewNumber)
		return
	}
	if t.h != d.BlockIndex || t.v != d.ViewNumber {
		o.viol(n, "timer_for_wrong_epoch", "%s returned at height %d view %d but the timer is armed for height %d view %d", st.describe(), d.BlockIndex, d.ViewNumber, t.h, t.v)
		return
	}
	if st.Op == OpTimeout && st.TH == st.PreBI && st.TV == st.PreV {
		s.note("current_epoch_timeout")
	}
	if st.PostBI == st.PreBI && int(st.PostV) >= int(st.PreV)+2 {
		s.st.Exercised = true
		s.note("nested_view_change")
	}
	if st.Op == OpTimeout && s.st.Probe["log:skip change view"] > 0 {
		s.st.Exercised = true
	}
}
