package verifsim

import (
	"fmt"

	"github.com/nspcc-dev/dbft"
)

// C08 - fault-free synchronous runs decide every height in view 0 whatever the
// delivery order; nobody asks for a view change or for recovery state.
//
// (Until fix D14 the library armed a zero timer at block index 1 of a ledger starting at
// height 0 - the zero value of lastBlockIndex made the "previous height" timer adjustment
// fire - and this oracle exempted that height; the exemption is gone with the defect.)
type OracleC08 struct {
	BaseOracle
	s *Sim
}

func NewOracleC08(s *Sim) *OracleC08 {
	target := s.sc.Start + uint32(s.sc.Heights)
	s.doneFn = func() bool {
		for _, n := range s.nodes {
			if n.ident < s.sc.NIdent && !n.flagWO && n.tip().Idx < target {
				return false
			}
		}
		return true
	}
	return &OracleC08{s: s}
}
func (o *OracleC08) Name() string     { return "C08" }

func (o *OracleC08) exempt(h uint32) bool { return false }

func (o *OracleC08) OnOut(n *Node, st *Step, out *Out) {
	switch out.Kind {
	case OBroadcast:
		p := out.P
		if (p.T == dbft.ChangeViewType || p.T == dbft.RecoveryRequestType) && !o.exempt(p.H) {
			o.s.Violate("C08", "asked_for_view_change_or_recovery", fmt.Sprintf("%s broadcast %s at height %d in a fault-free synchronous run (during %s)", n, p.T, p.H, st.describe()), n.id)
		}
	case OProcessBlock:
		if n.d.ViewNumber != 0 && !o.exempt(out.Hdr.Idx) {
			o.s.Violate("C08", "decided_in_higher_view", fmt.Sprintf("%s decided height %d in view %d", n, out.Hdr.Idx, n.d.ViewNumber), n.id)
		}
	}
}

func (o *OracleC08) AtEnd(s *Sim) {
	target := s.sc.Start + uint32(s.sc.Heights)
	for _, n := range s.nodes {
		if n.ident >= s.sc.NIdent || n.flagWO {
			continue // the statement speaks about validators; observers are not judged for progress
		}
		if n.tip().Idx < target {
			s.Violate("C08", "not_every_height_decided", fmt.Sprintf("%s reached height %d only, %d expected (run ended by %q after %d events, %.1f s simulated)", n, n.tip().Idx, target, s.st.Truncated, s.st.Events, float64(s.now)/1e9), n.id)
			return
		}
	}
	if s.st.Probe["log:caching message from future"] > 0 {
		s.st.Exercised = true
	}
}
