package verifsim

import (
	"fmt"

	"github.com/nspcc-dev/dbft"
)

// C04 - quorum-gated progress.  The precondition of every prepare response,
// commit / pre-commit and view increase is re-evaluated at the instant it
// happens, from the node's tables and from the harness's own record of what
// was authentically delivered to the node.
type OracleC04 struct {
	BaseOracle
	s         *Sim
	committed map[[3]uint32]bool // (node, inc, height): first (pre)commit already judged
}

func NewOracleC04(s *Sim) *OracleC04 { return &OracleC04{s: s, committed: map[[3]uint32]bool{}} }
func (o *OracleC04) Name() string     { return "C04" }

func (o *OracleC04) viol(n *Node, class, f string, a ...any) {
	o.s.Violate("C04", class, n.String()+": "+fmt.Sprintf(f, a...), n.id)
}

func contentKey(idx uint32, prev Hash, ts, nonce uint64, hs []Hash) Hash {
	h := Header{Idx: idx, Prev: prev, TS: ts, Nonce: nonce, TxHashes: hs}
	return h.hash("content")
}

// heldProposal returns the proposal the node holds for its current view if it
// is an authentic proposal of the designated primary.
func (o *OracleC04) heldProposal(n *Node) (*Payload, string) {
	d := n.d
	nv := len(o.s.sc.ValsAt(d.BlockIndex))
	prim := primaryOf(d.BlockIndex, d.ViewNumber, nv)
	if prim >= len(d.PreparationPayloads) {
		return nil, "preparation table shorter than the validator list"
	}
	q, _ := d.PreparationPayloads[prim].(*Payload)
	if q == nil {
		return nil, fmt.Sprintf("holds no payload from the designated primary %d of view %d", prim, d.ViewNumber)
	}
	if q.T != dbft.PrepareRequestType || int(q.Idx) != prim || q.V != d.ViewNumber || q.H != d.BlockIndex {
		return nil, fmt.Sprintf("the primary's slot holds %s", q)
	}
	found := false
	for _, e := range n.facts.proposals[hv{q.H, q.V}] {
		if e.Hash() == q.Hash() {
			found = true
		}
	}
	if !found {
		return nil, fmt.Sprintf("proposal %s was never delivered to the node", q.Hash())
	}
	return q, ""
}

func (o *OracleC04) hasAllTx(n *Node, q *Payload) (bool, string) {
	pr := q.Body.(*PrepReq)
	for _, h := range pr.Hashes {
		if _, ok := n.pool[h]; !ok {
			if _, ok2 := n.d.Transactions[h]; ok2 && n.everHad[h] {
				continue
			}
			return false, fmt.Sprintf("transaction %s of the proposal is not in the node's possession", h)
		}
	}
	return true, ""
}

func (o *OracleC04) OnOut(n *Node, st *Step, out *Out) {
	if out.Kind != OBroadcast || n.d == nil || !n.judged() {
		return
	}
	p := out.P
	d := n.d
	sc := o.s.sc
	switch p.T {
	case dbft.PrepareResponseType:
		q, why := o.heldProposal(n)
		if q == nil && int(p.Idx) == primaryOf(p.H, p.V, len(sc.ValsAt(p.H))) {
			o.viol(n, "primary_answers_own_proposal", "height %d view %d: the primary broadcast a prepare response (to its own earlier proposal, recovered after a restart); its slot now holds the response instead of the proposal", p.H, p.V)
			return
		}
		if q == nil {
			o.viol(n, "response_without_primary_proposal", "height %d view %d: prepare response broadcast but %s", p.H, p.V, why)
			return
		}
		if r, ok := p.Body.(*PrepResp); !ok || r.Prep != q.Hash() {
			o.viol(n, "response_names_other_proposal", "height %d view %d: response names %s, the held proposal is %s", p.H, p.V, p.Body.(*PrepResp).Prep, q.Hash())
			return
		}
		if ok, why := o.hasAllTx(n, q); !ok {
			o.viol(n, "response_with_missing_tx", "height %d view %d: %s", p.H, p.V, why)
			return
		}
		// the application's policy callback must not have rejected this very proposal
		if v, asked := n.facts.policy[q.Hash()]; asked && !v {
			o.viol(n, "response_to_proposal_rejected_by_policy", "height %d view %d: the application's VerifyPrepareRequest rejected proposal %s, yet a prepare response names it", p.H, p.V, q.Hash())
			return
		}
		pr := q.Body.(*PrepReq)
		ck := contentKey(d.BlockIndex, n.initTipHash, pr.TS, pr.Nnc, pr.Hashes)
		if v, ok := n.facts.verdict[ck]; !ok || !v {
			o.viol(n, "response_without_accepting_verification", "height %d view %d: the verification callback did not accept a block with the proposal's content (called=%v verdict=%v)", p.H, p.V, ok, v)
			return
		}
		if len(pr.Hashes) > 0 || st.Op == OpTx {
			o.s.note("response_checked_with_transactions")
		}
	case dbft.CommitType, dbft.PreCommitType:
		amev := sc.amevAt(p.H)
		if (p.T == dbft.CommitType) == amev {
			return // under anti-MEV the commit is gated by pre-commits (C07); a pre-commit without anti-MEV is C07's too
		}
		key := [3]uint32{uint32(n.id), uint32(n.inc), p.H}
		if o.committed[key] {
			return // retransmission
		}
		o.committed[key] = true
		if n.inc > 1 && o.s.retransmission(n, p) {
			o.s.note("recovered_vote_retransmitted_after_restart")
			return // a restarted node sends again, unchanged, the vote it got back from its peers
		}
		q, why := o.heldProposal(n)
		if q == nil {
			o.viol(n, "commit_without_primary_proposal", "height %d view %d: %s broadcast but %s", p.H, p.V, p.T, why)
			return
		}
		if ok, why := o.hasAllTx(n, q); !ok {
			o.viol(n, "commit_with_missing_tx", "height %d view %d: %s", p.H, p.V, why)
			return
		}
		nv := len(sc.ValsAt(p.H))
		m := mOf(nv)
		// exact test on the node's table
		cnt := 0
		for i, e := range d.PreparationPayloads {
			pp, _ := e.(*Payload)
			if pp == nil || pp.V != d.ViewNumber || int(pp.Idx) != i {
				continue
			}
			if pp.T == dbft.PrepareRequestType && pp.Hash() == q.Hash() {
				cnt++
			} else if r, ok := pp.Body.(*PrepResp); ok && pp.T == dbft.PrepareResponseType && r.Prep == q.Hash() {
				if v, asked := n.facts.policy[pp.Hash()]; asked && !v && i != d.MyIndex {
					o.viol(n, "rejected_response_kept", "height %d view %d: the prepare response of validator %d was rejected by the application's VerifyPrepareResponse and is still in the table", p.H, p.V, i)
					return
				}
				cnt++
			}
		}
		// superset test on the harness record of authentic deliveries
		del := 0
		for i := 0; i < nv; i++ {
			ok := false
			for _, e := range n.facts.delivered[p.H][delivKey{dbft.PrepareRequestType, d.ViewNumber, uint16(i)}] {
				if e.Hash() == q.Hash() {
					ok = true
				}
			}
			for _, e := range n.facts.delivered[p.H][delivKey{dbft.PrepareResponseType, d.ViewNumber, uint16(i)}] {
				if r, ok2 := e.Body.(*PrepResp); ok2 && r.Prep == q.Hash() {
					ok = true
				}
			}
			if ok {
				del++
			}
		}
		if cnt < m || del < m {
			o.viol(n, "commit_without_M_preparations", "height %d view %d: %s broadcast with %d matching preparations in the table and %d authentically delivered (M=%d)", p.H, p.V, p.T, cnt, del, m)
			return
		}
		if cnt == m {
			o.s.st.Exercised = true
			o.s.note("commit_with_exactly_M_preparations")
		}
	}
}

func (o *OracleC04) AfterCall(n *Node, st *Step) {
	if n.d == nil || st.Panic != nil || !n.judged() {
		return
	}
	if st.Op == OpStart || st.Op == OpReset {
		// cached change-view requests of the new height are replayed inside the
		// initialisation and can raise the view there: judged as a change from view 0
		if n.d.ViewNumber == 0 {
			return
		}
		st = &Step{Op: st.Op, PreBI: n.d.BlockIndex, PostBI: n.d.BlockIndex, PreV: 0, PostV: n.d.ViewNumber, Outs: st.Outs, P: st.P, Arg: st.Arg}
	}
	if st.PostBI != st.PreBI || st.PostV <= st.PreV {
		return
	}
	d := n.d
	nv := len(o.s.sc.ValsAt(d.BlockIndex))
	m := mOf(nv)
	del := 0
	for i := 0; i < nv; i++ {
		ok := false
		for k, l := range n.facts.delivered[d.BlockIndex] {
			if k.t != dbft.ChangeViewType || int(k.idx) != i {
				continue
			}
			for _, e := range l {
				if cv, ok2 := e.Body.(*ChView); ok2 && cv.NewView >= st.PostV {
					ok = true
				}
			}
		}
		if ok {
			del++
		}
	}
	cnt := 0
	for _, e := range d.LastChangeViewPayloads {
		if e != nil && e.GetChangeView() != nil && e.GetChangeView().NewViewNumber() >= st.PostV {
			cnt++
		}
	}
	if del < m || cnt < m {
		o.viol(n, "view_change_without_M_requests", "height %d: entered view %d (from %d) holding change-view requests for it from %d validators in its table, %d authentically delivered (M=%d)", d.BlockIndex, st.PostV, st.PreV, cnt, del, m)
		return
	}
	if del == m {
		o.s.st.Exercised = true
		o.s.note("view_change_with_exactly_M_requests")
	}
}
