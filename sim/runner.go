package verifsim

import (
	"encoding/json"
	"fmt"
	"os"
	"sort"
	"strings"
	"time"
)

// PropSpec describes how one property is decided by the cluster simulator.
type PropSpec struct {
	ID string
	// Run executes one complete run (possibly several simulations for
	// differential properties) from the tape and returns its result.
	Run func(t *Tape, record bool) *RunResult
	// Rule is the non-triviality rule stated in the evidence.
	Rule string
}

type RunResult struct {
	Viol     *Violation
	St       Stats
	Scen     map[string]any
	Trace    []string
	SimCount int // simulations executed (pair runs: 2 or 3)
}

var Props = map[string]*PropSpec{}

// Process-global cryptographic randomness (the proposal nonce comes from
// crypto/rand inside the library).  The test binary installs a function that
// re-seeds it; runs that execute several simulations re-seed before each one
// so that every simulation sees the same nonce stream.
var (
	cryptoReseed func(seed uint64)
	cryptoSeed   uint64
)

func SetCryptoReseed(f func(seed uint64)) { cryptoReseed = f }

func seedCrypto(seed uint64) {
	cryptoSeed = seed
	if cryptoReseed != nil {
		cryptoReseed(seed)
	}
}

func reseedCrypto() {
	if cryptoReseed != nil {
		cryptoReseed(cryptoSeed)
	}
}

func register(p *PropSpec) { Props[p.ID] = p }

// simpleRun: one scenario, one simulation, a set of oracles.
func simpleRun(scen func(*Tape) *Scenario, arm func(*Sim)) func(*Tape, bool) *RunResult {
	return func(t *Tape, record bool) *RunResult {
		sc := scen(t)
		s := NewSim(sc, t)
		s.record = record
		arm(s)
		s.Run()
		return &RunResult{Viol: s.viol, St: s.st, Scen: sc.Summary(), Trace: s.trace, SimCount: 1}
	}
}

// mixRun makes one run in k a run of the first kind (drawn from the tape, so a replay
// takes the same branch).
func mixRun(k uint64, special, normal func(*Tape, bool) *RunResult) func(*Tape, bool) *RunResult {
	return func(t *Tape, record bool) *RunResult {
		if t.Chance(SScen, 1, k) {
			return special(t, record)
		}
		return normal(t, record)
	}
}

// ---------------------------------------------------------------- replay files

type ReplayFile struct {
	Property  string              `json:"property"`
	BaseSeed  uint64              `json:"base_seed"`
	RunIndex  uint64              `json:"run_index"`
	RunSeed   uint64              `json:"run_seed"`
	Tape      map[string][]uint64 `json:"tape"`
	Scenario  map[string]any      `json:"scenario"`
	Violation *Violation          `json:"violation"`
	TraceHash uint64              `json:"trace_hash"`
	Minimised bool                `json:"minimised"`
	Deep      bool                `json:"deep_scenario_space,omitempty"`
	ShrinkLog []string            `json:"shrink_log,omitempty"`
	Trace     []string            `json:"schedule_and_fault_trace"`
	Faults    map[string]int      `json:"faults_fired"`
}

func tapeToMap(rec [nStreams][]uint64) map[string][]uint64 {
	m := map[string][]uint64{}
	for i, l := range rec {
		if len(l) > 0 {
			m[streamNames[i]] = l
		}
	}
	return m
}

func mapToTape(m map[string][]uint64) [nStreams][]uint64 {
	var rec [nStreams][]uint64
	for i, n := range streamNames {
		rec[i] = m[n]
	}
	return rec
}

func trimTape(rec [nStreams][]uint64) [nStreams][]uint64 {
	for i := range rec {
		l := rec[i]
		for len(l) > 0 && l[len(l)-1] == 0 {
			l = l[:len(l)-1]
		}
		rec[i] = l
	}
	return rec
}

func WriteReplay(path string, rf *ReplayFile) error {
	b, err := json.MarshalIndent(rf, "", " ")
	if err != nil {
		return err
	}
	return os.WriteFile(path, b, 0o644)
}

func ReadReplay(path string) (*ReplayFile, error) {
	b, err := os.ReadFile(path)
	if err != nil {
		return nil, err
	}
	rf := &ReplayFile{}
	if err := json.Unmarshal(b, rf); err != nil {
		return nil, err
	}
	return rf, nil
}

// ---------------------------------------------------------------- shrinking

// Shrink minimises a failing tape while the same violation class persists.
func Shrink(p *PropSpec, rec [nStreams][]uint64, class string, budget time.Duration, pre func()) ([nStreams][]uint64, []string) {
	deadline := time.Now().Add(budget)
	var log []string
	tries := 0
	fails := func(c [nStreams][]uint64) bool {
		tries++
		if pre != nil {
			pre()
		}
		r := p.Run(NewReplayTape(c), false)
		return r.Viol != nil && r.Viol.Class == class
	}
	cur := trimTape(rec)
	size := func(c [nStreams][]uint64) (n int, nz int) {
		for _, l := range c {
			n += len(l)
			for _, v := range l {
				if v != 0 {
					nz++
				}
			}
		}
		return
	}
	n0, nz0 := size(cur)
	// 1. zero whole streams (never the scenario stream first)
	for _, st := range []Stream{SProbe, STimer, SMap, SWork, SSpecial, SAdv, SFault, SApp, SNet} {
		if len(cur[st]) == 0 || time.Now().After(deadline) {
			continue
		}
		c := cur
		c[st] = nil
		if fails(c) {
			cur = c
			log = append(log, "zeroed stream "+streamNames[st])
		}
	}
	// 2. truncate tails, 3. zero spans, 4. zero / halve single values
	for pass := 0; pass < 3 && time.Now().Before(deadline); pass++ {
		changed := false
		for st := Stream(0); st < nStreams; st++ {
			// tail truncation by halves
			for len(cur[st]) > 0 && time.Now().Before(deadline) {
				c := cur
				c[st] = append([]uint64(nil), cur[st][:len(cur[st])/2]...)
				if fails(c) {
					cur = trimTape(c)
					changed = true
				} else {
					break
				}
			}
			// zero spans
			for span := len(cur[st]) / 2; span >= 1 && time.Now().Before(deadline); span /= 2 {
				for off := 0; off+span <= len(cur[st]) && time.Now().Before(deadline); off += span {
					allz := true
					for _, v := range cur[st][off : off+span] {
						if v != 0 {
							allz = false
							break
						}
					}
					if allz {
						continue
					}
					c := cur
					c[st] = append([]uint64(nil), cur[st]...)
					for i := off; i < off+span; i++ {
						c[st][i] = 0
					}
					if fails(c) {
						cur = c
						changed = true
					}
				}
			}
			// halve remaining values
			for i := 0; i < len(cur[st]) && time.Now().Before(deadline); i++ {
				v := cur[st][i]
				for v > 1 {
					c := cur
					c[st] = append([]uint64(nil), cur[st]...)
					c[st][i] = v / 2
					if fails(c) {
						cur = c
						v /= 2
						changed = true
					} else {
						break
					}
				}
			}
			cur = trimTape(cur)
		}
		if !changed {
			break
		}
	}
	n1, nz1 := size(cur)
	log = append(log, fmt.Sprintf("tape %d values (%d non-zero) -> %d values (%d non-zero) in %d re-runs", n0, nz0, n1, nz1, tries))
	return cur, log
}

// ---------------------------------------------------------------- worker

type WorkerOut struct {
	Property   string         `json:"property"`
	Worker     int            `json:"worker"`
	Runs       int            `json:"runs"`
	Sims       int            `json:"sims"`
	Events     int            `json:"events"`
	Calls      int            `json:"calls"`
	SimTimeNs  int64          `json:"sim_time_ns"`
	WallS      float64        `json:"wall_s"`
	Faults     map[string]int `json:"faults"`
	Probes     map[string]int `json:"probes"`
	Notes      map[string]int `json:"notes"`
	Truncated  map[string]int `json:"truncated"`
	Decided    int            `json:"decided_blocks"`
	HeightsHist map[string]int `json:"heights_decided_hist"`
	Exercised  int            `json:"exercised_runs"`
	SchedSigs  []uint64       `json:"sched_sigs"`
	ExSigs     []uint64       `json:"exercised_sched_sigs"`
	StateSigs  []uint64       `json:"state_sigs"`
	Panics     int            `json:"panics"`
	DetChecked int            `json:"determinism_rechecked"`
	DetFailed  []string       `json:"determinism_failed"`
	Violations []WViol        `json:"violations"`
	Samples    []any          `json:"samples"`
	Rule       string         `json:"rule"`
	Error      string         `json:"error,omitempty"`
}

type WViol struct {
	Violation
	Replay string `json:"replay"`
	Known  bool   `json:"known"`
	Repro  bool   `json:"reproduced"`
}

type WorkerCfg struct {
	Prop      string
	BaseSeed  uint64
	Worker    int
	Workers   int
	Budget    time.Duration
	MaxRuns   int
	ReplayDir string
	Known     map[string]bool // violation classes that are listed known findings
	Pre       func(seed uint64) // per-run process-global preparation (crypto randomness)
	Samples   int
}

func strHash(s string) uint64 {
	var h uint64 = 1469598103934665603
	for i := 0; i < len(s); i++ {
		h ^= uint64(s[i])
		h *= 1099511628211
	}
	return h
}

func RunSeed(base uint64, prop string, idx uint64) uint64 {
	return mix64(mix64(base, strHash(prop)), idx)
}

func RunWorker(cfg WorkerCfg) *WorkerOut {
	KnownClasses = cfg.Known
	if KnownClasses == nil {
		KnownClasses = map[string]bool{}
	}
	p := Props[cfg.Prop]
	out := &WorkerOut{Property: cfg.Prop, Worker: cfg.Worker, Faults: map[string]int{}, Probes: map[string]int{},
		Notes: map[string]int{}, Truncated: map[string]int{}, HeightsHist: map[string]int{}}
	if p == nil {
		out.Error = "unknown property " + cfg.Prop
		return out
	}
	out.Rule = p.Rule
	start := time.Now()
	sched := map[uint64]struct{}{}
	exs := map[uint64]struct{}{}
	states := map[uint64]struct{}{}
	seenClass := map[string]bool{}
	for r := uint64(cfg.Worker); ; r += uint64(cfg.Workers) {
		if cfg.MaxRuns > 0 && out.Runs >= cfg.MaxRuns {
			break
		}
		if time.Since(start) > cfg.Budget {
			break
		}
		seed := RunSeed(cfg.BaseSeed, cfg.Prop, r)
		if cfg.Pre != nil {
			cfg.Pre(seed)
		}
		tape := NewTape(seed)
		res := p.Run(tape, false)
		out.Runs++
		out.Sims += res.SimCount
		out.Events += res.St.Events
		out.Calls += res.St.Calls
		out.SimTimeNs += res.St.SimTime
		out.Decided += res.St.Decided
		out.Panics += res.St.Panics
		for k, v := range res.St.Fault {
			out.Faults[k] += v
		}
		for k, v := range res.St.Probe {
			out.Probes[k] += v
		}
		for k, v := range res.St.ExNote {
			out.Notes[k] += v
		}
		if res.St.Truncated != "" {
			out.Truncated[res.St.Truncated]++
		}
		out.HeightsHist[fmt.Sprint(res.St.HeightsDecided)]++
		sched[res.St.SchedSig] = struct{}{}
		for k := range res.St.StateSigs {
			states[k] = struct{}{}
		}
		if res.St.Exercised {
			out.Exercised++
			exs[res.St.SchedSig] = struct{}{}
			if len(out.Samples) < cfg.Samples {
				if cfg.Pre != nil {
					cfg.Pre(seed)
				}
				rr := p.Run(NewReplayTape(tape.Rec), true)
				tr := rr.Trace
				if len(tr) > 60 {
					tr = append(append([]string{}, tr[:60]...), fmt.Sprintf("... %d more lines", len(rr.Trace)-60))
				}
				out.Samples = append(out.Samples, map[string]any{"run_index": r, "run_seed": seed, "scenario": res.Scen,
					"events": res.St.Events, "faults_fired": res.St.Fault, "trace_head": tr})
			}
		}
		// in-process determinism re-check of ~1% of the runs
		if r%97 == 3 {
			if cfg.Pre != nil {
				cfg.Pre(seed)
			}
			rr := p.Run(NewTape(seed), false)
			out.DetChecked++
			if rr.St.TraceHash != res.St.TraceHash {
				out.DetFailed = append(out.DetFailed, fmt.Sprintf("run %d seed %d: trace hash %x vs %x", r, seed, res.St.TraceHash, rr.St.TraceHash))
			}
		}
		if res.Viol != nil {
			v := *res.Viol
			known := cfg.Known[v.Class]
			if seenClass[v.Class] && known {
				continue
			}
			seenClass[v.Class] = true
			wv := WViol{Violation: v, Known: known}
			// confirm, minimise, replay the minimised tape, write the file
			if cfg.Pre != nil {
				cfg.Pre(seed)
			}
			conf := p.Run(NewReplayTape(tape.Rec), false)
			wv.Repro = conf.Viol != nil && conf.Viol.Class == v.Class && conf.St.TraceHash == res.St.TraceHash
			rec := tape.Rec
			var slog []string
			if wv.Repro {
				sb := 25 * time.Second
				if known {
					sb = 5 * time.Second
				}
				rec, slog = Shrink(p, tape.Rec, v.Class, sb, func() {
					if cfg.Pre != nil {
						cfg.Pre(seed)
					}
				})
			}
			if cfg.Pre != nil {
				cfg.Pre(seed)
			}
			fin := p.Run(NewReplayTape(rec), true)
			if fin.Viol == nil || fin.Viol.Class != v.Class {
				// fall back to the unminimised tape
				rec = tape.Rec
				if cfg.Pre != nil {
					cfg.Pre(seed)
				}
				fin = p.Run(NewReplayTape(rec), true)
				slog = append(slog, "minimised tape did not reproduce; kept the original")
			}
			rf := &ReplayFile{Property: cfg.Prop, BaseSeed: cfg.BaseSeed, RunIndex: r, RunSeed: seed, Tape: tapeToMap(rec),
				Scenario: fin.Scen, Violation: fin.Viol, TraceHash: fin.St.TraceHash, Minimised: len(slog) > 0, Deep: Deep, ShrinkLog: slog,
				Trace: tailTrace(fin.Trace, 400), Faults: fin.St.Fault}
			if rf.Violation == nil {
				rf.Violation = &v
			}
			path := fmt.Sprintf("%s/%s-%d-%d.json", cfg.ReplayDir, cfg.Prop, cfg.BaseSeed, r)
			if err := WriteReplay(path, rf); err != nil {
				out.Error = err.Error()
			}
			wv.Replay = path
			out.Violations = append(out.Violations, wv)
			if !known {
				break // first unknown violation ends this worker
			}
		}
	}
	out.WallS = time.Since(start).Seconds()
	out.SchedSigs = keys(sched)
	out.ExSigs = keys(exs)
	out.StateSigs = keys(states)
	return out
}

func tailTrace(tr []string, n int) []string {
	if len(tr) <= n {
		return tr
	}
	return append([]string{fmt.Sprintf("... %d earlier lines omitted", len(tr)-n)}, tr[len(tr)-n:]...)
}

func keys(m map[uint64]struct{}) []uint64 {
	l := make([]uint64, 0, len(m))
	for k := range m {
		l = append(l, k)
	}
	sort.Slice(l, func(i, j int) bool { return l[i] < l[j] })
	if len(l) > 300000 {
		l = l[:300000]
	}
	return l
}

// Replay re-executes a replay file and reports whether it reproduced.
func Replay(path string, pre func(seed uint64)) (ok bool, msg string, rr *RunResult) {
	rf, err := ReadReplay(path)
	if err != nil {
		return false, err.Error(), nil
	}
	p := Props[rf.Property]
	if p == nil {
		return false, "unknown property " + rf.Property, nil
	}
	if pre != nil {
		pre(rf.RunSeed)
	}
	Deep = rf.Deep
	res := p.Run(NewReplayTape(mapToTape(rf.Tape)), true)
	if res.Viol == nil {
		return false, "no violation on replay", res
	}
	if rf.Violation != nil && res.Viol.Class != rf.Violation.Class {
		return false, fmt.Sprintf("different violation class on replay: %s vs %s", res.Viol.Class, rf.Violation.Class), res
	}
	if rf.TraceHash != 0 && res.St.TraceHash != rf.TraceHash {
		return false, fmt.Sprintf("violation reproduced (%s) but the trace hash differs: %x vs %x", res.Viol.Class, res.St.TraceHash, rf.TraceHash), res
	}
	return true, strings.TrimSpace(res.Viol.Class + ": " + res.Viol.Detail), res
}
