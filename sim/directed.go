package verifsim

import (
	"container/heap"
	"time"

	"github.com/nspcc-dev/dbft"
)

// Directed-prefix runs.  A uniformly random schedule reaches "a validator voted, lost its
// state, and was taken to a higher view before its own vote came back to it" a few times in
// ten thousand runs.  A directed run builds such a state with a short hand-delivered prefix
// whose parameters (height, roles, anti-MEV, order of the echo) come from the tape, and then
// hands the cluster over to the ordinary seeded network for the rest of the run.  The oracles
// are the same as in every other run; the prefix only uses legal network behaviour (delays,
// losses, one crash/restart of one budgeted faulty validator of N=4 or N=7).

func directedScenario(t *Tape, amevOf3 uint64) *Scenario {
	amev := int64(-1)
	if t.Chance(SScen, amevOf3, 3) {
		amev = 0
	}
	n := 4
	if t.Chance(SScen, 1, 4) {
		n = 7
	}
	sc := scriptScenario(n, amev)
	sc.Family = "directed"
	sc.Start = uint32(t.Range(SScen, 0, 9))
	sc.Heights = 2
	sc.TPB = time.Duration(pick(t, SScen, 1000, 2000, 700)) * time.Millisecond
	sc.LatBase = pick(t, SScen, int64(1), 5, 20) * int64(time.Millisecond)
	sc.LatJitter = pick(t, SScen, int64(50), 10, 100, 200) * int64(time.Millisecond)
	sc.HeavyTail = t.Chance(SScen, 1, 2)
	sc.DropPM = pick(t, SScen, uint64(0), 10, 50)
	sc.DupPM = pick(t, SScen, uint64(0), 50)
	sc.SyncEvery = int64(sc.TPB) * 4
	sc.MaxEvents = 20000
	sc.MaxTime = int64(sc.TPB) * 120
	sc.MapOrder = int(t.Draw(SScen, 3))
	x := int(t.Draw(SScen, uint64(n)))
	sc.Fault[x] = FAmnesia
	return sc
}

// directedRestartRun: see the comment at the top of the file.
func directedRestartRun(arm func(*Sim), amevOf3 uint64) func(*Tape, bool) *RunResult {
	return func(t *Tape, record bool) *RunResult {
		sc := directedScenario(t, amevOf3)
		s := NewSim(sc, t)
		s.record = record
		s.manual = true
		arm(s)
		s.installMapPerm()
		defer func() { dbft.VerifMapPerm = nil }()
		for _, n := range s.nodes {
			n.boot()
		}
		if s.directedRestartPrefix(true) {
			s.note("directed_prefix_completed")
		} else {
			s.note("directed_prefix_abandoned")
		}
		s.manual = false
		for i := range s.nodes {
			s.after(sc.SyncEvery+int64(i), &Event{Kind: EvSyncPoll, Node: i})
		}
		if s.viol == nil {
			s.loop()
		}
		return &RunResult{Viol: s.viol, St: s.st, Scen: sc.Summary(), Trace: s.trace, SimCount: 1}
	}
}

func (s *Sim) manualTimeout(n *Node) {
	if n.d == nil {
		return
	}
	s.now += int64(time.Millisecond)
	h, v := n.d.BlockIndex, n.d.ViewNumber
	n.call(&Step{Op: OpTimeout, TH: h, TV: v}, func() { n.d.OnTimeout(h, v) })
}

// sentAt is sent() restricted to one height and view.
func (s *Sim) sentAt(n *Node, t dbft.MessageType, h uint32, v byte) *Payload {
	for i := len(s.authentic) - 1; i >= 0; i-- {
		p := s.authentic[i]
		if p.T == t && p.sender == n.id && p.H == h && p.V == v {
			return p
		}
	}
	return nil
}

func (s *Sim) directedRestartPrefix(crash bool) bool {
	sc := s.sc
	h := sc.Start + 1
	var x *Node
	for _, n := range s.nodes {
		if n.kind == FAmnesia {
			x = n
		}
	}
	if x == nil || x.d == nil {
		return false
	}
	var prim *Node
	var others []*Node
	for _, n := range s.nodes {
		if n.d == nil {
			return false
		}
		if n.d.IsPrimary() {
			prim = n
		}
		if n != x {
			others = append(others, n)
		}
	}
	if prim == nil {
		return false
	}
	// view 0: the proposal
	if s.sentAt(prim, dbft.PrepareRequestType, h, 0) == nil {
		s.manualTimeout(prim)
	}
	req := s.sentAt(prim, dbft.PrepareRequestType, h, 0)
	if req == nil {
		return false
	}
	// X alone collects M preparations and (pre)commits
	m := x.d.M()
	if x == prim {
		for _, b := range others[:m-1] {
			s.give(b, req)
			r := s.sentAt(b, dbft.PrepareResponseType, h, 0)
			if r == nil {
				return false
			}
			s.give(x, r)
		}
	} else {
		var rs []*Payload
		for _, b := range others {
			if b == prim || len(rs) >= m-2 {
				continue
			}
			s.give(b, req)
			r := s.sentAt(b, dbft.PrepareResponseType, h, 0)
			if r == nil {
				return false
			}
			rs = append(rs, r)
		}
		reqFirst := s.tape.Chance(SFault, 1, 2)
		if reqFirst {
			s.give(x, req)
		}
		for _, r := range rs {
			s.give(x, r)
		}
		if !reqFirst {
			s.give(x, req)
		}
	}
	lockT := dbft.CommitType
	if sc.AMEV >= 0 && int64(h) >= sc.AMEV {
		lockT = dbft.PreCommitType
	}
	vote := s.sentAt(x, lockT, h, 0)
	if vote == nil || s.viol != nil {
		return false
	}
	// X dies (or just is cut off); nobody got its vote
	if crash {
		s.fault("crash_between_calls")
		x.crash()
	}
	// the others time out, hear each other, and agree on view 1
	for round := 0; round < 3; round++ {
		done := true
		for _, n := range others {
			if n.d.ViewNumber == 0 {
				done = false
			}
		}
		if done {
			break
		}
		var batch []*Payload
		for _, n := range others {
			if n.d.ViewNumber != 0 {
				continue
			}
			before := len(s.authentic)
			s.manualTimeout(n)
			for _, p := range s.authentic[before:] {
				if p.sender == n.id && (p.T == dbft.ChangeViewType || p.T == dbft.RecoveryRequestType) {
					batch = append(batch, p)
				}
			}
		}
		for _, p := range batch {
			for _, n := range others {
				if n.id != p.sender {
					s.give(n, p)
				}
			}
		}
		if s.viol != nil {
			return false
		}
	}
	var cvs []*Payload
	for _, n := range others {
		if n.d.BlockIndex != h || n.d.ViewNumber != 1 {
			return false
		}
		cv := s.sentAt(n, dbft.ChangeViewType, h, 0)
		if cv == nil {
			return false
		}
		cvs = append(cvs, cv)
	}
	if !crash {
		return s.viol == nil
	}
	// X comes back with empty state; its own old vote is still travelling
	s.fault("restart")
	x.boot()
	echoFirst := s.tape.Chance(SFault, 1, 4)
	if echoFirst {
		s.fault("echo_of_own_payload_after_restart")
		s.give(x, vote)
	}
	for _, cv := range cvs {
		s.give(x, cv)
	}
	if !echoFirst {
		s.fault("echo_of_own_commit_after_view_change")
		s.give(x, vote)
	}
	return s.viol == nil
}

// directedLockRun (C09): the same prefix without the crash - one validator is (pre)commit-
// locked alone in view 0, the others have agreed on view 1 - followed by a black-out that makes
// view 1 fail as well, then synchrony.  The others (M of them when N=4) must go on to view 2
// and decide; the locked one catches up from the ledger.
func directedLockRun(arm func(*Sim)) func(*Tape, bool) *RunResult {
	return func(t *Tape, record bool) *RunResult {
		sc := directedScenario(t, 1)
		sc.Family = "gst"
		sc.Sub = 3 // faults before GST: the view bound for validators silent from the start is not judged
		sc.Heights = 3
		sc.Delta = int64(sc.TPB) / 50
		sc.GST = (3 + t.Range(SScen, 0, 6)) * int64(sc.TPB)
		sc.MaxTime = sc.GST + 400*int64(sc.TPB)
		sc.MaxEvents = 400000
		sc.SyncEvery = int64(sc.TPB)
		sc.DropPM, sc.DupPM, sc.HeavyTail = 0, 0, false
		crash := t.Chance(SScen, 1, 4)
		s := NewSim(sc, t)
		s.record = record
		s.manual = true
		arm(s)
		s.installMapPerm()
		defer func() { dbft.VerifMapPerm = nil }()
		for _, n := range s.nodes {
			n.boot()
		}
		if s.directedRestartPrefix(crash) {
			s.note("directed_prefix_completed")
		} else {
			s.note("directed_prefix_abandoned")
		}
		s.manual = false
		// black-out until GST: whatever view 1 tries is lost
		for i := range s.cut {
			s.cut[i] = true
		}
		s.fault("isolate_nodes")
		s.push(&Event{At: sc.GST, Kind: EvPartHeal, Aux: 1})
		for i := range s.nodes {
			s.after(sc.SyncEvery+int64(i), &Event{Kind: EvSyncPoll, Node: i})
		}
		if s.viol == nil {
			s.loop()
		}
		return &RunResult{Viol: s.viol, St: s.st, Scen: sc.Summary(), Trace: s.trace, SimCount: 1}
	}
}

// ---------------------------------------------------------------------------------------
// Two more directed prefixes, for states behind repaired defects whose return the random
// search reaches only once in ten thousand runs.

// directedEarlyCommitRun (anti-MEV, finding D12): a backup that holds the proposal but not yet
// M preparations is given a Byzantine validator's garbage Commit, then M valid PreCommits (it
// processes the PreBlock without having pre-committed itself), then the valid Commits of the
// two honest validators; the seeded network takes over afterwards.
func directedEarlyCommitRun(arm func(*Sim)) func(*Tape, bool) *RunResult {
	return func(t *Tape, record bool) *RunResult {
		sc := directedScenario(t, 3)
		for i := range sc.Fault {
			sc.Fault[i] = FHonest
		}
		sc.NIdent = 4
		vals := []int{0, 1, 2, 3}
		sc.Epochs = []Epoch{{From: 0, Vals: vals}}
		sc.Fault = make([]FaultKind, 4)
		sc.FlagWO = make([]bool, 4)
		byz := int(t.Draw(SScen, 4))
		sc.Fault[byz] = FByz
		sc.AMEV = 0
		s := NewSim(sc, t)
		s.record = record
		s.manual = true
		arm(s)
		s.installMapPerm()
		defer func() { dbft.VerifMapPerm = nil }()
		for _, n := range s.nodes {
			n.boot()
		}
		if s.directedEarlyCommitPrefix(byz) {
			s.note("directed_prefix_completed")
		} else {
			s.note("directed_prefix_abandoned")
		}
		s.manual = false
		for i := range s.nodes {
			s.after(sc.SyncEvery+int64(i), &Event{Kind: EvSyncPoll, Node: i})
		}
		if s.viol == nil {
			s.loop()
		}
		return &RunResult{Viol: s.viol, St: s.st, Scen: sc.Summary(), Trace: s.trace, SimCount: 1}
	}
}

func (s *Sim) directedEarlyCommitPrefix(byz int) bool {
	sc := s.sc
	h := sc.Start + 1
	var prim *Node
	var backups []*Node
	for _, n := range s.nodes {
		if n.d == nil {
			return false
		}
		if n.d.IsPrimary() {
			prim = n
		} else {
			backups = append(backups, n)
		}
	}
	nv := len(sc.ValsAt(h))
	bidx := sc.IndexAt(h, byz)
	if primaryOf(h, 0, nv) == bidx || prim == nil || len(backups) != 2 {
		return false // the Byzantine validator is the primary of view 0: nothing to direct
	}
	if s.sentAt(prim, dbft.PrepareRequestType, h, 0) == nil {
		s.manualTimeout(prim)
	}
	req := s.sentAt(prim, dbft.PrepareRequestType, h, 0)
	if req == nil {
		return false
	}
	y, z := backups[0], backups[1]
	if s.tape.Chance(SFault, 1, 2) {
		y, z = z, y
	}
	// Y and Z get the proposal and answer; Z and the primary see M preparations and pre-commit,
	// Y sees only the proposal and its own response
	s.give(y, req)
	s.give(z, req)
	ry, rz := s.sentAt(y, dbft.PrepareResponseType, h, 0), s.sentAt(z, dbft.PrepareResponseType, h, 0)
	if ry == nil || rz == nil {
		return false
	}
	s.give(z, ry)
	s.give(prim, ry)
	s.give(prim, rz)
	pz, pp := s.sentAt(z, dbft.PreCommitType, h, 0), s.sentAt(prim, dbft.PreCommitType, h, 0)
	if pz == nil || pp == nil {
		return false
	}
	// the Byzantine validator: a garbage Commit for Y now, a valid PreCommit for everybody
	bk := s.kr.Priv(byz)
	s.fault("adv:invalid_sig_commit")
	s.give(y, s.forge(byz, dbft.CommitType, h, 0, &CommitBody{Sig: bk.Sign([]byte("garbage"))}))
	hdr, ok := headerFor(y)
	if !ok {
		return false
	}
	ph := hdr.hash("preblock")
	pb := s.forge(byz, dbft.PreCommitType, h, 0, &PreCommitBody{D: bk.Sign(ph[:])})
	// Y collects M PreCommits before it has M preparations: PreBlock processed, no own PreCommit
	s.give(y, pz)
	s.give(y, pp)
	s.give(y, pb)
	// the others finish the pre-commit phase and commit
	s.give(z, pp)
	s.give(z, pb)
	s.give(prim, pz)
	s.give(prim, pb)
	cz, cp := s.sentAt(z, dbft.CommitType, h, 0), s.sentAt(prim, dbft.CommitType, h, 0)
	if cz == nil || cp == nil {
		return false
	}
	s.give(y, cz)
	s.give(y, cp)
	return s.viol == nil
}

// directedChangeViewRun (finding D10): two honest validators reach view 1 and ask for view 2, a
// Byzantine one asks for view 3; the fourth validator, still in view 0, is given the three
// requests, the highest last - it completes the quorum for view 2.
func directedChangeViewRun(arm func(*Sim)) func(*Tape, bool) *RunResult {
	return func(t *Tape, record bool) *RunResult {
		sc := directedScenario(t, 1)
		sc.NIdent = 4
		sc.Epochs = []Epoch{{From: 0, Vals: []int{0, 1, 2, 3}}}
		sc.Fault = make([]FaultKind, 4)
		sc.FlagWO = make([]bool, 4)
		// the Byzantine validator is the primary of view 1, so that view 1 sees no proposal
		byz := sc.Epochs[0].Vals[primaryOf(sc.Start+1, 1, 4)]
		sc.Fault[byz] = FByz
		s := NewSim(sc, t)
		s.record = record
		s.manual = true
		arm(s)
		s.installMapPerm()
		defer func() { dbft.VerifMapPerm = nil }()
		for _, n := range s.nodes {
			n.boot()
		}
		if s.directedChangeViewPrefix(byz) {
			s.note("directed_prefix_completed")
		} else {
			s.note("directed_prefix_abandoned")
		}
		s.manual = false
		for i := range s.nodes {
			s.after(sc.SyncEvery+int64(i), &Event{Kind: EvSyncPoll, Node: i})
		}
		if s.viol == nil {
			s.loop()
		}
		return &RunResult{Viol: s.viol, St: s.st, Scen: sc.Summary(), Trace: s.trace, SimCount: 1}
	}
}

func (s *Sim) directedChangeViewPrefix(byz int) bool {
	sc := s.sc
	h := sc.Start + 1
	if len(s.nodes) != 3 {
		return false
	}
	k := int(s.tape.Draw(SFault, 3))
	l := s.nodes[k] // the laggard
	var ab []*Node
	for _, n := range s.nodes {
		if n.d == nil {
			return false
		}
		if n != l {
			ab = append(ab, n)
		}
	}
	a, b := ab[0], ab[1]
	hear := func(v byte) { // the Byzantine validator makes itself heard in view v
		rr := s.forge(byz, dbft.RecoveryRequestType, h, v, &RecReq{TS: 1})
		s.give(a, rr)
		s.give(b, rr)
	}
	round := func(v byte) { // both time out; recovery traffic goes round, change-view requests are held
		for _, n := range ab {
			if n.d.ViewNumber != v || s.sentAt(n, dbft.ChangeViewType, h, v) != nil {
				continue
			}
			before := len(s.authentic)
			s.manualTimeout(n)
			for i := before; i < len(s.authentic); i++ {
				p := s.authentic[i]
				if p.T == dbft.RecoveryRequestType || p.T == dbft.RecoveryMessageType {
					for _, m := range ab {
						if m.id != p.sender {
							s.give(m, p)
						}
					}
				}
			}
		}
	}
	// view 0 -> 1
	hear(0)
	for i := 0; i < 3; i++ {
		round(0)
	}
	cva0, cvb0 := s.sentAt(a, dbft.ChangeViewType, h, 0), s.sentAt(b, dbft.ChangeViewType, h, 0)
	if cva0 == nil || cvb0 == nil {
		return false
	}
	cvz0 := s.forge(byz, dbft.ChangeViewType, h, 0, &ChView{NewView: 1, Rsn: dbft.CVTimeout, TS: 1})
	s.give(a, cvb0)
	s.give(a, cvz0)
	s.give(b, cva0)
	s.give(b, cvz0)
	if a.d.ViewNumber != 1 || b.d.ViewNumber != 1 || a.d.BlockIndex != h {
		return false
	}
	// view 1: both ask for view 2 (held back)
	hear(1)
	for i := 0; i < 3; i++ {
		round(1)
	}
	cva, cvb := s.sentAt(a, dbft.ChangeViewType, h, 1), s.sentAt(b, dbft.ChangeViewType, h, 1)
	if cva == nil || cvb == nil {
		return false
	}
	// the laggard, in view 0, hears the two requests for view 2 and then the Byzantine request
	// for view 3, which completes the quorum for view 2
	s.give(l, cva)
	s.give(l, cvb)
	s.fault("adv:ChangeView")
	s.give(l, s.forge(byz, dbft.ChangeViewType, h, 2, &ChView{NewView: 3, Rsn: dbft.CVTimeout, TS: 1}))
	return s.viol == nil
}

// directedPrimaryRestartRun: the state "the primary of a view >= 1 proposed, lost its state,
// was brought back to its view by a recovery message that carries its own proposal, and then
// hears a backup's answer directly".  View 0 of the height fails for everybody (its proposal is
// lost), the budgeted amnesia validator X is the primary of view 1; some backups get its
// proposal, X crashes and restarts, asks for recovery, is given a backup's recovery message and
// then one of the PrepareResponses that were still travelling.  The seeded network takes over
// for three more heights.
func directedPrimaryRestartRun(arm func(*Sim)) func(*Tape, bool) *RunResult {
	return func(t *Tape, record bool) *RunResult {
		sc := directedScenario(t, 1)
		n := len(sc.Fault)
		for i := range sc.Fault {
			sc.Fault[i] = FHonest
		}
		x := sc.Epochs[0].Vals[primaryOf(sc.Start+1, 1, n)]
		sc.Fault[x] = FAmnesia
		sc.Heights = 4
		sc.MaxTime = int64(sc.TPB) * 200
		s := NewSim(sc, t)
		s.record = record
		s.manual = true
		arm(s)
		s.installMapPerm()
		defer func() { dbft.VerifMapPerm = nil }()
		for _, n := range s.nodes {
			n.boot()
		}
		if s.directedPrimaryRestartPrefix() {
			s.note("directed_prefix_completed")
		} else {
			s.note("directed_prefix_abandoned")
		}
		s.manual = false
		for i := range s.nodes {
			s.after(sc.SyncEvery+int64(i), &Event{Kind: EvSyncPoll, Node: i})
		}
		if s.viol == nil {
			s.loop()
		}
		return &RunResult{Viol: s.viol, St: s.st, Scen: sc.Summary(), Trace: s.trace, SimCount: 1}
	}
}

func (s *Sim) directedPrimaryRestartPrefix() bool {
	sc := s.sc
	h := sc.Start + 1
	var x *Node
	var others []*Node
	for _, n := range s.nodes {
		if n.d == nil || n.d.BlockIndex != h {
			return false
		}
		if n.kind == FAmnesia {
			x = n
		} else {
			others = append(others, n)
		}
	}
	if x == nil {
		return false
	}
	// view 0 fails: nobody gets its proposal, everybody times out; the first time-outs only
	// produce recovery requests (nobody has been heard yet), the later ones change-view requests
	for round := 0; round < 4; round++ {
		done := true
		for _, n := range s.nodes {
			if n.d.ViewNumber == 0 {
				done = false
			}
		}
		if done {
			break
		}
		var batch []*Payload
		for _, n := range s.nodes {
			if n.d.ViewNumber != 0 {
				continue
			}
			before := len(s.authentic)
			s.manualTimeout(n)
			for _, p := range s.authentic[before:] {
				if p.sender == n.id && (p.T == dbft.ChangeViewType || p.T == dbft.RecoveryRequestType) {
					batch = append(batch, p)
				}
			}
		}
		for _, p := range batch {
			for _, n := range s.nodes {
				if n.id != p.sender && n.d.BlockIndex == h {
					s.give(n, p)
				}
			}
		}
		if s.viol != nil {
			return false
		}
	}
	for _, n := range s.nodes {
		if n.d.BlockIndex != h || n.d.ViewNumber != 1 {
			return false
		}
	}
	if !x.d.IsPrimary() {
		return false
	}
	// X proposes in view 1 (its timer is zero)
	if s.sentAt(x, dbft.PrepareRequestType, h, 1) == nil {
		s.manualTimeout(x)
	}
	req := s.sentAt(x, dbft.PrepareRequestType, h, 1)
	if req == nil {
		return false
	}
	// some backups get the proposal and answer; X hears none of the answers yet
	k := 1 + int(s.tape.Draw(SFault, uint64(len(others))))
	var resps []*Payload
	for _, b := range others[:k] {
		s.give(b, req)
		if r := s.sentAt(b, dbft.PrepareResponseType, h, 1); r != nil {
			resps = append(resps, r)
		}
	}
	if len(resps) == 0 || s.viol != nil {
		return false
	}
	// X loses its state
	s.fault("crash_between_calls")
	x.crash()
	s.fault("restart")
	x.boot()
	if x.d == nil || x.d.BlockIndex != h {
		return false
	}
	// it asks around (a fresh node has heard nobody: its time-out is a recovery request) ...
	before := len(s.authentic)
	s.manualTimeout(x)
	var rr *Payload
	for _, p := range s.authentic[before:] {
		if p.sender == x.id && p.T == dbft.RecoveryRequestType {
			rr = p
		}
	}
	if rr == nil {
		return false
	}
	// ... and one of the backups that hold its proposal answers
	var rec *Payload
	for _, b := range others[:k] {
		before = len(s.authentic)
		s.give(b, rr)
		for _, p := range s.authentic[before:] {
			if p.sender == b.id && p.T == dbft.RecoveryMessageType {
				rec = p
			}
		}
		if rec != nil {
			break
		}
	}
	if rec == nil || s.viol != nil {
		return false
	}
	s.give(x, rec)
	if s.viol != nil || x.d == nil {
		return false
	}
	// the answers that were still travelling reach X directly
	for _, r := range resps {
		if s.tape.Chance(SFault, 2, 3) {
			s.give(x, r)
		}
		if s.viol != nil {
			return false
		}
	}
	if x.d.BlockIndex == h && x.d.ViewNumber == 1 && x.d.RequestSentOrReceived() {
		s.note("restarted_primary_holds_its_own_proposal_again")
	}
	return true
}

// directedLedgerAheadRun: the state "the ledger has moved on by block sync, the application has
// not called Reset yet, and the timer of the old height fires at the node that is that height's
// primary" - with the dynamic block time extension on, empty pools and a block time that
// changes with every height, so that every callback the library reads live (instead of the
// value it took at Reset) already answers for the next height.  The three other validators
// lose view 0 (its primary X never gets to propose), agree on view 1 and decide without X; X is
// given the block by sync and then its own time-out.  The seeded network takes over for three
// more heights.
func directedLedgerAheadRun(arm func(*Sim)) func(*Tape, bool) *RunResult {
	return func(t *Tape, record bool) *RunResult {
		sc := directedScenario(t, 1)
		for i := range sc.Fault {
			sc.Fault[i] = FHonest
		}
		sc.Heights = 4
		sc.MaxTime = int64(sc.TPB) * 200
		sc.TxRate = 0
		sc.MaxTPB = sc.TPB * time.Duration(pick(t, SScen, 1, 2, 3))
		sc.TPB2 = sc.TPB * time.Duration(pick(t, SScen, 1, 3, 6)) / 2
		sc.TPBAlt = true
		sc.TPB2From = sc.Start + 1 + uint32(t.Draw(SScen, 2))
		sc.ResetDelay = int64(sc.TPB) * 3
		s := NewSim(sc, t)
		s.record = record
		s.manual = true
		arm(s)
		s.installMapPerm()
		defer func() { dbft.VerifMapPerm = nil }()
		for _, n := range s.nodes {
			n.boot()
		}
		if s.directedLedgerAheadPrefix() {
			s.note("directed_prefix_completed")
		} else {
			s.note("directed_prefix_abandoned")
		}
		s.manual = false
		for i := range s.nodes {
			s.after(sc.SyncEvery+int64(i), &Event{Kind: EvSyncPoll, Node: i})
		}
		if s.viol == nil {
			s.loop()
		}
		return &RunResult{Viol: s.viol, St: s.st, Scen: sc.Summary(), Trace: s.trace, SimCount: 1}
	}
}

// floodAmong hands every payload of height h that a member of the group has broadcast since
// position *pos of the authentic log to every other member that is still at that height.
func (s *Sim) floodAmong(group []*Node, h uint32, pos *int) {
	in := map[int]bool{}
	for _, n := range group {
		in[n.id] = true
	}
	for guard := 0; *pos < len(s.authentic) && guard < 400 && s.viol == nil; guard++ {
		p := s.authentic[*pos]
		*pos++
		if !in[p.sender] || p.H != h {
			continue
		}
		for _, n := range group {
			if n.id != p.sender && n.d != nil && n.d.BlockIndex == h && !n.accepted {
				s.give(n, p)
			}
		}
	}
}

func (s *Sim) directedLedgerAheadPrefix() bool {
	sc := s.sc
	h := sc.Start + 1
	pos := 0
	// the first height is decided by everybody in the ordinary way (at Start the primary
	// proposes at once, so the state we are after needs a height entered by Reset)
	for _, n := range s.nodes {
		if n.d == nil || n.d.BlockIndex != h {
			s.note("ledger_ahead_prefix_abandoned_at_0")
			return false
		}
	}
	for round := 0; round < 4; round++ {
		s.floodAmong(s.nodes, h, &pos)
	}
	for _, n := range s.nodes {
		if n.tip().Idx != h || s.viol != nil {
			s.note("ledger_ahead_prefix_abandoned_at_00")
			return false
		}
	}
	// the applications call Reset (by hand: the queued Reset events are dropped)
	kept := s.q[:0]
	for _, ev := range s.q {
		if ev.Kind != EvAppReset {
			kept = append(kept, ev)
		}
	}
	s.q = kept
	heap.Init(&s.q)
	for _, n := range s.nodes {
		s.now += int64(time.Millisecond)
		n.appReset()
	}
	h++
	var x *Node
	var others []*Node
	for _, n := range s.nodes {
		if n.d == nil || n.d.BlockIndex != h {
			s.note("ledger_ahead_prefix_abandoned_at_1")
			return false
		}
		if n.d.IsPrimary() {
			x = n
		} else {
			others = append(others, n)
		}
	}
	if x == nil || len(others) < 3 {
		s.note("ledger_ahead_prefix_abandoned_at_2")
		return false
	}
	pos = len(s.authentic)
	// view 0 fails for the others: X has not proposed, they time out (recovery requests first,
	// change-view requests then) until they agree on view 1
	for round := 0; round < 5; round++ {
		moved := true
		for _, n := range others {
			if n.d.ViewNumber == 0 {
				moved = false
				s.manualTimeout(n)
			}
		}
		if moved {
			break
		}
		s.floodAmong(others, h, &pos)
		if s.viol != nil {
			s.note("ledger_ahead_prefix_abandoned_at_3")
			return false
		}
	}
	var p1 *Node
	for _, n := range others {
		if n.d.BlockIndex != h || n.d.ViewNumber != 1 {
			s.note("ledger_ahead_prefix_abandoned_at_4")
			return false
		}
		if n.d.IsPrimary() {
			p1 = n
		}
	}
	if p1 == nil {
		s.note("ledger_ahead_prefix_abandoned_at_5")
		return false
	}
	// the primary of view 1 proposes, the others answer, everybody commits: height h is decided
	// without X
	if s.sentAt(p1, dbft.PrepareRequestType, h, 1) == nil {
		s.manualTimeout(p1)
	}
	for round := 0; round < 4; round++ {
		s.floodAmong(others, h, &pos)
	}
	if s.viol != nil {
		s.note("ledger_ahead_prefix_abandoned_at_6")
		return false
	}
	var blk *Block
	for _, n := range others {
		if n.tip().Idx == h {
			blk = n.tip()
		}
	}
	if blk == nil {
		s.note("ledger_ahead_prefix_abandoned_at_7")
		return false
	}
	// X gets the block from the ledger of a peer; its application will call Reset later - and
	// the timer of height h fires first
	if x.tip().Idx != h-1 || x.d.BlockIndex != h || x.d.RequestSentOrReceived() {
		s.note("ledger_ahead_prefix_abandoned_at_8")
		return false
	}
	x.syncApply([]*Block{blk})
	if x.tip().Idx != h {
		s.note("ledger_ahead_prefix_abandoned_at_9")
		return false
	}
	s.note("primary_timer_fires_while_ledger_is_ahead_and_reset_pending")
	s.manualTimeout(x)
	return s.viol == nil
}
