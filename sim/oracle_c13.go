package verifsim

import "fmt"

// C13 (direct part) - a node that is not in the validator list of its height,
// or whose watch-only flag is set, never broadcasts, signs or produces
// pre-commit data.
type OracleC13 struct {
	BaseOracle
	s *Sim
}

func NewOracleC13(s *Sim) *OracleC13 { return &OracleC13{s: s} }
func (o *OracleC13) Name() string     { return "C13" }

func (o *OracleC13) OnOut(n *Node, st *Step, out *Out) {
	if out.Kind != OBroadcast && out.Kind != OSign && out.Kind != OSetData {
		return
	}
	if n.d == nil {
		return
	}
	h := n.tip().Idx + 1
	if st.Op != OpStart && st.Op != OpReset {
		h = n.d.BlockIndex
	}
	idx := o.s.sc.IndexAt(h, n.ident)
	if idx >= 0 && !n.flagWO {
		return
	}
	why := "is not in the validator list"
	if n.flagWO {
		why = "has the watch-only flag set"
	}
	role := "backup"
	if idx >= 0 && primaryOf(h, n.d.ViewNumber, len(o.s.sc.ValsAt(h))) == idx {
		role = "primary"
	}
	what := out.describe()
	o.s.Violate("C13", "watch_only_node_active", fmt.Sprintf("%s %s at height %d (rotation role: %s) but during %s it did: %s", n, why, h, role, st.describe(), what), n.id)
}

func (o *OracleC13) AfterCall(n *Node, st *Step) {
	if n.d == nil {
		return
	}
	h := n.d.BlockIndex
	idx := o.s.sc.IndexAt(h, n.ident)
	if n.flagWO && idx >= 0 && primaryOf(h, n.d.ViewNumber, len(o.s.sc.ValsAt(h))) == idx {
		o.s.st.Exercised = true
		o.s.note("flagged_validator_was_primary")
	}
	if idx < 0 {
		o.s.note("observer_call")
	}
}
