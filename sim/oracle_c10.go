package verifsim

import "fmt"

// C10 - no lost wake-up: after every API call an undecided validator has a
// timer armed for exactly its current height and view.
type OracleC10 struct {
	BaseOracle
	s   *Sim
	ext map[[2]int]*c10Ext // (node, incarnation) -> timer extensions in the current epoch
}

type c10Ext struct {
	h uint32
	v byte
	n int
}

func NewOracleC10(s *Sim) *OracleC10 { return &OracleC10{s: s, ext: map[[2]int]*c10Ext{}} }
func (o *OracleC10) Name() string     { return "C10" }

func (o *OracleC10) viol(n *Node, class, f string, a ...any) {
	o.s.Violate("C10", class, n.String()+": "+fmt.Sprintf(f, a...), n.id)
}

func (o *OracleC10) AfterCall(n *Node, st *Step) {
	if n.d == nil || st.Panic != nil || n.crashing || n.fatal {
		return
	}
	d := n.d
	s := o.s
	if int(d.ViewNumber) >= s.sc.MaxViews {
		s.st.Truncated = "max_views"
		s.stopped = true
		return
	}
	validator := s.sc.IndexAt(d.BlockIndex, n.ident) >= 0
	// "has not yet accepted a block" is the harness's own record (the application's
	// ProcessBlock returned success since the last Start/Reset), not the library's flag
	if !validator || n.flagWO || n.accepted {
		return
	}
	for i := range st.Outs {
		if out := &st.Outs[i]; out.Kind == OTimerReset && out.D < 0 {
			o.viol(n, "negative_timer_duration", "%s requested Timer.Reset(%d, %d, %v)", st.describe(), out.H, out.V, out.D)
			return
		}
	}
	// "so it can never wait forever": within one height and view every validator can make the
	// node extend its timer a bounded number of times (its proposal or response, its pre-commit,
	// its commit - each is kept once taken in, and a duplicate of a kept payload changes
	// nothing), so the number of extensions in an epoch is bounded by a small multiple of N (the library needs at most 3N+1; the limit is 16N+32, so that a library that also extends on other traffic passes).  An
	// unbounded series means some payload extends the timer every time it is delivered, i.e.
	// a peer's periodic retransmissions can postpone the timeout indefinitely.
	{
		k := [2]int{n.id, n.inc}
		e := o.ext[k]
		if e == nil || e.h != d.BlockIndex || e.v != d.ViewNumber {
			e = &c10Ext{h: d.BlockIndex, v: d.ViewNumber}
			o.ext[k] = e
		}
		for i := range st.Outs {
			if st.Outs[i].Kind == OTimerExtend {
				e.n++
			}
		}
		if lim := 16*len(s.sc.ValsAt(d.BlockIndex)) + 32; e.n > lim {
			o.viol(n, "timer_extended_without_bound", "height %d view %d: the timer has been extended %d times in this epoch (more than 16N+32 = %d): retransmitted payloads keep postponing the timeout", d.BlockIndex, d.ViewNumber, e.n, lim)
			return
		}
	}
	t := n.tm
	if t.resets == 0 {
		o.viol(n, "timer_never_armed", "%s returned with no timer armed at height %d view %d", st.describe(), d.BlockIndex, d.ViewNumber)
		return
	}
	if !t.armed || t.consumed {
		o.viol(n, "no_timer_pending", "%s returned at height %d view %d with no expiry pending (the last one was consumed and nothing re-armed it)", st.describe(), d.BlockIndex, d.ViewNumber)
		return
	}
	if t.h != d.BlockIndex || t.v != d.ViewNumber {
		o.viol(n, "timer_for_wrong_epoch", "%s returned at height %d view %d but the timer is armed for height %d view %d", st.describe(), d.BlockIndex, d.ViewNumber, t.h, t.v)
		return
	}
	if st.Op == OpTimeout && st.TH == st.PreBI && st.TV == st.PreV {
		s.note("current_epoch_timeout")
	}
	if st.PostBI == st.PreBI && int(st.PostV) >= int(st.PreV)+2 {
		s.st.Exercised = true
		s.note("nested_view_change")
	}
	if st.Op == OpTimeout && s.st.Probe["log:skip change view"] > 0 {
		s.st.Exercised = true
	}
}
