package verifsim

import (
	"fmt"
	"sort"

	"github.com/nspcc-dev/dbft"
)

// fpMask selects what a state fingerprint covers.
type fpMask struct {
	LastSeen bool // include LastSeenMessage
	Cache    bool // include the future-message cache
	Timer    bool // include the simulated timer
	Timing   bool // include lastBlockTime/Index/View and RTT state
}

// fingerprint is a canonical description of the whole node state: exported
// Context tables, the unexported state obtained through the verif accessor,
// and the simulated timer.  It is a string so that a mismatch can be explained.
func (n *Node) fingerprint(m fpMask) string {
	d := n.d
	var w []string
	add := func(f string, a ...any) { w = append(w, fmt.Sprintf(f, a...)) }
	add("bi=%d v=%d my=%d prim=%d n=%d prev=%s ts=%d nonce=%d", d.BlockIndex, d.ViewNumber, d.MyIndex, d.PrimaryIndex, len(d.Validators), d.PrevHash, d.Timestamp, d.Nonce)
	for i, v := range d.Validators {
		if pk, ok := v.(*PubKey); ok {
			add("val%d=%d", i, pk.ID)
		}
	}
	tab := func(name string, l []dbft.ConsensusPayload[Hash]) {
		for i, p := range l {
			if p != nil {
				add("%s[%d]=%s/%d/%d/%d/%d", name, i, p.Hash(), p.Type(), p.Height(), p.ViewNumber(), p.ValidatorIndex())
			}
		}
		add("%s.len=%d", name, len(l))
	}
	tab("prep", d.PreparationPayloads)
	tab("precommit", d.PreCommitPayloads)
	tab("commit", d.CommitPayloads)
	tab("cv", d.ChangeViewPayloads)
	tab("lastcv", d.LastChangeViewPayloads)
	if m.LastSeen {
		for i, hv := range d.LastSeenMessage {
			if hv != nil {
				add("seen[%d]=%d/%d", i, hv.Height, hv.View)
			}
		}
	}
	add("txh=%v nil=%v", d.TransactionHashes, d.TransactionHashes == nil)
	add("missing=%v", d.MissingTransactions)
	var txs []string
	for h := range d.Transactions {
		txs = append(txs, h.String())
	}
	sort.Strings(txs)
	add("txs=%v", txs)
	vs := d.VerifState()
	add("bp=%v pbp=%v rec=%v sub=%v blk=%v pblk=%v hdr=%v phdr=%v lbts=%d tpb=%d mtpb=%d pst=%d",
		vs.BlockProcessed, vs.PreBlockProcessed, vs.Recovering, vs.TxSubscriptionOn, vs.HasBlock, vs.HasPreBlock, vs.HasHeader, vs.HasPreHeader,
		vs.LastBlockTimestamp, vs.TimePerBlock, vs.MaxTimePerBlock, vs.PrepareSentTime.UnixNano())
	if m.Timing {
		add("lbt=%d lbi=%d lbv=%d rtt=%d/%d/%v", vs.LastBlockTime.UnixNano(), vs.LastBlockIndex, vs.LastBlockView, vs.RTTAvg, vs.RTTIdx, vs.RTTTimes)
	}
	if m.Cache {
		for _, c := range vs.Cache {
			add("cache[%d/%s/%d]=%s", c.Height, c.Kind, c.Index, c.Hash)
		}
	}
	if m.Timer && n.tm != nil {
		add("timer h=%d v=%d gen=%d armed=%v total=%d start=%d", n.tm.h, n.tm.v, n.tm.gen, n.tm.armed, n.tm.total, n.tm.start)
	}
	s := ""
	for _, x := range w {
		s += x + "\n"
	}
	return s
}

func fpDiff(a, b string) string {
	la, lb := splitLines(a), splitLines(b)
	ma := map[string]bool{}
	for _, l := range la {
		ma[l] = true
	}
	mb := map[string]bool{}
	for _, l := range lb {
		mb[l] = true
	}
	out := ""
	for _, l := range la {
		if !mb[l] {
			out += " -" + l
		}
	}
	for _, l := range lb {
		if !ma[l] {
			out += " +" + l
		}
	}
	if len(out) > 600 {
		out = out[:600] + "..."
	}
	return out
}

func splitLines(s string) []string {
	var l []string
	cur := ""
	for _, c := range s {
		if c == '\n' {
			l = append(l, cur)
			cur = ""
		} else {
			cur += string(c)
		}
	}
	return l
}
