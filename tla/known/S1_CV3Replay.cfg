CONSTANTS
 RM = {0, 1, 2, 3}
 RMFault = {3}
 RMDead = {}
 MaxView = 1
INIT Init
NEXT ReplayNext
CONSTRAINT MaxViewConstraint
INVARIANTS TypeOK InvTwoBlocksAccepted InvFaultNodesCount
CHECK_DEADLOCK FALSE
