package verifsim

import (
	"fmt"

	"github.com/nspcc-dev/dbft"
)

// C15 - honest proposals are well formed.  Judged at every PrepareRequest
// broadcast by an honest-code primary from what the library was given in that
// very call: the clock reading, the verified-pool content, the previous block
// timestamp handed over at (re)initialisation.
type OracleC15 struct {
	BaseOracle
	s *Sim
}

func NewOracleC15(s *Sim) *OracleC15 { return &OracleC15{s: s} }
func (o *OracleC15) Name() string     { return "C15" }

func (o *OracleC15) viol(n *Node, class, f string, a ...any) {
	o.s.Violate("C15", class, n.String()+": "+fmt.Sprintf(f, a...), n.id)
}

func (o *OracleC15) OnOut(n *Node, st *Step, out *Out) {
	if out.Kind != OBroadcast || out.P.T != dbft.PrepareRequestType || !n.judged() {
		return
	}
	p := out.P
	pr := p.Body.(*PrepReq)
	inc := o.s.sc.TSInc
	// find, in this call, the last clock reading and pool content before the request was built
	var clock uint64
	var pool []Hash
	haveClock, havePool, haveReq := false, false, false
	for i := len(st.Outs) - 2; i >= 0; i-- {
		x := &st.Outs[i]
		if x.Kind == ONewPrepReq && !haveReq {
			haveReq = true
			continue
		}
		if !haveReq {
			continue
		}
		if x.Kind == OClockRead && !haveClock {
			clock, haveClock = x.TS, true
		}
		if x.Kind == OGetVerified && !havePool {
			pool, havePool = x.Hashes, true
		}
		if haveClock && havePool {
			break
		}
	}
	if !haveReq || !haveClock || !havePool {
		o.viol(n, "proposal_not_built_from_callbacks", "height %d view %d: proposal broadcast without a clock reading / pool query / request construction in the same call (%v %v %v)", p.H, p.V, haveClock, havePool, haveReq)
		return
	}
	prev := n.initTS
	if pr.TS <= prev {
		o.viol(n, "timestamp_not_increasing", "height %d view %d: proposal timestamp %d is not greater than the previous block's %d (clock %d)", p.H, p.V, pr.TS, prev, clock)
		return
	}
	// "... and equal to the clock reading truncated to the configured increment whenever that
	// is larger": exact where the truncated reading is at least one increment past the previous
	// timestamp; in the band (prev, prev+inc) either reading of "larger" is accepted; with the
	// clock not ahead any value above the previous timestamp is (the statement asks no more).
	tr := clock / inc * inc
	switch {
	case tr >= prev+inc:
		if pr.TS != tr {
			o.viol(n, "timestamp_wrong", "height %d view %d: proposal timestamp %d, the clock reading %d truncated to the increment %d is %d (previous block %d)", p.H, p.V, pr.TS, clock, inc, tr, prev)
			return
		}
	case tr > prev:
		if pr.TS != tr && pr.TS != prev+inc {
			o.viol(n, "timestamp_wrong", "height %d view %d: proposal timestamp %d, expected the truncated clock reading %d or previous + increment %d", p.H, p.V, pr.TS, tr, prev+inc)
			return
		}
	}
	if clock <= prev {
		o.s.st.Exercised = true
		o.s.note("clock_not_ahead_of_previous_block")
	}
	if clock%inc != 0 {
		o.s.note("clock_not_aligned")
	}
	if len(pr.Hashes) != len(pool) {
		o.viol(n, "proposal_not_the_pool", "height %d view %d: proposal lists %d transactions, the verified pool returned %d", p.H, p.V, len(pr.Hashes), len(pool))
		return
	}
	for i := range pool {
		if pool[i] != pr.Hashes[i] {
			o.viol(n, "proposal_not_the_pool", "height %d view %d: transaction %d of the proposal differs from the pool's", p.H, p.V, i)
			return
		}
	}
	n.lastProposal = &Header{Idx: p.H, TS: pr.TS, Nonce: pr.Nnc, TxHashes: pr.Hashes}
	n.lastProposalView = p.V
}

func (o *OracleC15) AfterCall(n *Node, st *Step) {
	if n.d == nil || n.lastProposal == nil || !n.judged() {
		return
	}
	lp := n.lastProposal
	// the primary's own block / pre-block for that view is built from the same values
	for i := range st.Outs {
		x := &st.Outs[i]
		if (x.Kind != ONewBlock && x.Kind != ONewPreBlock) || x.Hdr.Idx != lp.Idx || x.VN != n.lastProposalView {
			continue
		}
		h := x.Hdr
		same := h.TS == lp.TS && h.Nonce == lp.Nonce && len(h.TxHashes) == len(lp.TxHashes)
		if same {
			for j := range h.TxHashes {
				if h.TxHashes[j] != lp.TxHashes[j] {
					same = false
				}
			}
		}
		if !same {
			o.viol(n, "own_block_differs_from_proposal", "height %d view %d: %s built with ts=%d nonce=%d ntx=%d, the proposal had ts=%d nonce=%d ntx=%d", lp.Idx, n.lastProposalView, outNames[x.Kind], h.TS, h.Nonce, len(h.TxHashes), lp.TS, lp.Nonce, len(lp.TxHashes))
			return
		}
	}
	if n.d.BlockIndex != lp.Idx || n.d.ViewNumber != n.lastProposalView {
		n.lastProposal = nil
	}
}
