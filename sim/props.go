package verifsim

func init() {
	register(&PropSpec{
		ID: "C01",
		Run: simpleRun(SafetyScenario, func(s *Sim) {
			s.AddOracle(NewOracleC01(s))
		}),
		Rule: "a run is non-trivial iff >= 2 honest nodes accepted a block at one height while a faulty participant existed or a partition/faction fault was active; distinct = distinct ordered delivery sequences (hash of (recipient, payload hash) in delivery order)",
	})
	register(&PropSpec{
		ID: "C02",
		Run: simpleRun(SafetyScenario, func(s *Sim) {
			s.AddOracle(NewOracleC02(s))
		}),
		Rule: "a run is non-trivial iff some node accepted a (pre)block while it held a (pre)commit that reached it before its proposal, from another view, or that does not verify; distinct = distinct ordered delivery sequences",
	})
}
