package verifsim

import (
	"github.com/nspcc-dev/dbft"
)

// Harness-side facts recorded for every node regardless of which oracle is
// armed.  They are independent records of what was delivered to / produced by
// a node, used by the oracles next to the node's own exported tables.

type hv struct {
	h uint32
	v byte
}

type delivKey struct {
	t   dbft.MessageType
	v   byte
	idx uint16
}

type facts struct {
	// early[payload hash] = the (pre)commit was handed to the library's
	// verification callback at a moment when the node could not build the
	// header / pre-header it has to be checked against.
	early map[Hash]bool
	// proposals delivered to (or broadcast by) this incarnation, per (height, view)
	proposals map[hv][]*Payload
	// every consensus payload delivered, direct or embedded, per height
	delivered map[uint32]map[delivKey][]*Payload
	// verdicts of VerifyBlock / VerifyPreBlock by content hash
	verdict map[Hash]bool
	policy  map[Hash]bool // payload hash -> last verdict of the application's policy callbacks (VerifyPrepareRequest / VerifyPrepareResponse / VerifyCommit / VerifyPreCommit)
	anyEarly bool // some (pre)commit reached this node before its proposal at the current height
	// payloads that reached this incarnation from outside (direct or inside a recovery message)
	heard map[Hash]bool
	// transactions in the node's possession (pool or supplied) are in n.pool
}

func newFacts() *facts {
	return &facts{early: map[Hash]bool{}, proposals: map[hv][]*Payload{}, delivered: map[uint32]map[delivKey][]*Payload{}, verdict: map[Hash]bool{}, policy: map[Hash]bool{}, heard: map[Hash]bool{}}
}

func (f *facts) gc(cur uint32) {
	for k := range f.proposals {
		if k.h+2 < cur {
			delete(f.proposals, k)
		}
	}
	for h := range f.delivered {
		if h+2 < cur {
			delete(f.delivered, h)
		}
	}
	if len(f.early) > 4096 {
		f.early = map[Hash]bool{}
	}
	if len(f.verdict) > 4096 {
		f.verdict = map[Hash]bool{}
	}
}

func (f *facts) addDelivered(p *Payload) {
	m := f.delivered[p.H]
	if m == nil {
		m = map[delivKey][]*Payload{}
		f.delivered[p.H] = m
	}
	k := delivKey{p.T, p.V, p.Idx}
	for _, e := range m[k] {
		if e.Hash() == p.Hash() {
			return
		}
	}
	m[k] = append(m[k], p)
	if p.T == dbft.PrepareRequestType {
		key := hv{p.H, p.V}
		f.proposals[key] = append(f.proposals[key], p)
	}
}

// noteDelivery records a payload handed to OnReceive, including the payloads a
// recovery message would yield through its Get* methods for this node.
func (n *Node) noteDelivery(p *Payload) {
	f := n.facts
	f.addDelivered(p)
	f.heard[p.Hash()] = true
	if rm, ok := p.Body.(*RecMsg); ok {
		vals := n.valsPub(p.H)
		add := func(l []*Payload, sameView bool) {
			for _, e := range l {
				if e == nil || e.H != p.H || (sameView && e.V != p.V) || !witnessOK(e, vals) {
					continue
				}
				f.addDelivered(e)
				f.heard[e.Hash()] = true
			}
		}
		if rm.PrepReqP != nil {
			add([]*Payload{rm.PrepReqP}, true)
		}
		add(rm.PrepResps, true)
		add(rm.ChViews, false)
		add(rm.PreCommits, false)
		add(rm.Commits, false)
	}
}

// certStatus is the oracle's own evaluation of a decision certificate.
type certStatus struct {
	M            int
	Valid        int
	InvalidEarly int
	InvalidLate  int
	OtherView    int
	AtPrimary    bool // the node MADE the proposal of the view it accepts in (this incarnation broadcast it)
	AMEV         bool // the anti-MEV extension is on at this height
}

func (c certStatus) ok() bool { return c.Valid >= c.M }

// onlyEarlyInvalid: the certificate falls short of M valid entries, would
// reach M if the invalid ones counted, and every invalid counted entry was
// taken in before the node could verify it (signature of known finding D1).
func (c certStatus) onlyEarlyInvalid() bool {
	return !c.ok() && c.InvalidLate == 0 && c.InvalidEarly > 0 && c.Valid+c.InvalidEarly >= c.M
}

// knownD1: D1 is about a node without the anti-MEV extension that stores a commit before it
// RECEIVES the proposal (onPrepareRequest runs updateExistingPayloads before the request is
// stored).  A primary that makes the proposal re-validates what it holds right after storing its
// own request (sendPrepareRequest), and with the extension every stored commit is re-validated
// once the pre-block is processed (D12 fixed), so the same shortfall there is not the known
// finding.  A node on the primary's slot that did not make the proposal in this incarnation - a
// restarted primary that gets its own earlier proposal back, a split-brain sibling - takes it in
// through onPrepareRequest like any backup: that is the known finding.
func (c certStatus) knownD1() bool { return c.onlyEarlyInvalid() && !c.AtPrimary && !c.AMEV }

// commitCert re-verifies the current-view commits the node holds against blk.
func (n *Node) commitCert(blk *Block) certStatus {
	d := n.d
	vals := n.valsPub(d.BlockIndex)
	cs := certStatus{M: mOf(len(vals)), AMEV: n.s.sc.amevAt(d.BlockIndex),
		AtPrimary: n.madeReq && n.madeReqInc == n.inc && n.madeReqH == d.BlockIndex && n.madeReqV == d.ViewNumber}
	for i, cp := range d.CommitPayloads {
		if cp == nil || i >= len(vals) {
			continue
		}
		if cp.ViewNumber() != d.ViewNumber {
			cs.OtherView++
			continue
		}
		c := cp.GetCommit()
		if c != nil && blk.Verify(vals[i], c.Signature()) == nil && int(cp.ValidatorIndex()) == i {
			cs.Valid++
		} else if n.facts.early[cp.Hash()] {
			cs.InvalidEarly++
		} else {
			cs.InvalidLate++
		}
	}
	return cs
}

func (n *Node) preCommitCert(pb *PreBlock) certStatus {
	d := n.d
	vals := n.valsPub(d.BlockIndex)
	cs := certStatus{M: mOf(len(vals)), AtPrimary: d.IsPrimary(), AMEV: true}
	for i, cp := range d.PreCommitPayloads {
		if cp == nil || i >= len(vals) {
			continue
		}
		if cp.ViewNumber() != d.ViewNumber {
			cs.OtherView++
			continue
		}
		c := cp.GetPreCommit()
		if c != nil && pb.Verify(vals[i], c.Data()) == nil && int(cp.ValidatorIndex()) == i {
			cs.Valid++
		} else if n.facts.early[cp.Hash()] {
			cs.InvalidEarly++
		} else {
			cs.InvalidLate++
		}
	}
	return cs
}
