package verifsim

import (
	"fmt"

	"github.com/nspcc-dev/dbft"
)

// C03 - non-equivocation and commit lock, judged per library instance
// (incarnation) over its complete outbox.
type c03Height struct {
	proposal  map[byte]Hash
	response  map[byte]Hash
	commit    *Payload
	precommit *Payload
	adoptedC  bool // commit is a vote of an earlier incarnation that came back to the node
	adoptedP  bool // same for precommit
	lockView  byte
	locked    bool
	lastView  byte
	hasView   bool
}

type OracleC03 struct {
	BaseOracle
	s  *Sim
	st map[[2]int]map[uint32]*c03Height // (node, incarnation) -> height -> record
}

func NewOracleC03(s *Sim) *OracleC03 {
	return &OracleC03{s: s, st: map[[2]int]map[uint32]*c03Height{}}
}
func (o *OracleC03) Name() string { return "C03" }

func (o *OracleC03) rec(n *Node, h uint32) *c03Height {
	k := [2]int{n.id, n.inc}
	m := o.st[k]
	if m == nil {
		m = map[uint32]*c03Height{}
		o.st[k] = m
		// forget earlier incarnations of this node
		for kk := range o.st {
			if kk[0] == n.id && kk[1] < n.inc {
				delete(o.st, kk)
			}
		}
	}
	r := m[h]
	if r == nil {
		r = &c03Height{proposal: map[byte]Hash{}, response: map[byte]Hash{}}
		m[h] = r
		for hh := range m {
			if hh+3 < h {
				delete(m, hh)
			}
		}
	}
	return r
}

func (o *OracleC03) viol(n *Node, class, f string, a ...any) {
	o.s.Violate("C03", class, n.String()+": "+fmt.Sprintf(f, a...), n.id)
}

func (o *OracleC03) OnOut(n *Node, st *Step, out *Out) {
	if out.Kind != OBroadcast || !n.judged() {
		return
	}
	p := out.P
	r := o.rec(n, p.H)
	// view carried by own top-level messages never decreases within a height
	// (a restarted validator that got its own earlier (pre)commit back re-sends exactly that
	// payload, whose view is the one it was made in: the retransmission clause governs it)
	retrans := n.kind == FAmnesia && n.inc > 1 &&
		((p.T == dbft.CommitType && r.commit != nil && r.commit.Hash() == p.Hash()) ||
			(p.T == dbft.PreCommitType && r.precommit != nil && r.precommit.Hash() == p.Hash()))
	if retrans {
		o.s.note("restarted_node_resent_recovered_commit")
		if n.d != nil && p.V < n.d.ViewNumber {
			o.s.note("restarted_node_resent_recovered_commit_of_lower_view")
		}
	}
	if r.hasView && p.V < r.lastView && !retrans {
		o.viol(n, "view_decreased", "height %d: broadcast %s carries view %d after a message of view %d", p.H, p.T, p.V, r.lastView)
		return
	}
	if !retrans {
		r.lastView, r.hasView = p.V, true
	}
	switch p.T {
	case dbft.PrepareRequestType:
		if h, ok := r.proposal[p.V]; ok && h != p.Hash() {
			o.viol(n, "two_proposals", "height %d view %d: proposals %s and %s", p.H, p.V, h, p.Hash())
			return
		}
		r.proposal[p.V] = p.Hash()
	case dbft.PrepareResponseType:
		if h, ok := r.response[p.V]; ok && h != p.Hash() {
			o.viol(n, "two_responses", "height %d view %d: responses %s and %s", p.H, p.V, h, p.Hash())
			return
		}
		r.response[p.V] = p.Hash()
	case dbft.CommitType:
		if r.commit != nil && r.commit.Hash() != p.Hash() {
			o.viol(n, "two_commits", "height %d: commits %s (view %d) and %s (view %d)", p.H, r.commit.Hash(), r.commit.V, p.Hash(), p.V)
			return
		}
		if r.commit == nil {
			r.commit = p
			if !r.locked {
				r.locked, r.lockView = true, p.V
			}
		}
	case dbft.PreCommitType:
		if r.precommit != nil && r.precommit.Hash() != p.Hash() {
			o.viol(n, "two_precommits", "height %d: pre-commits %s (view %d) and %s (view %d)", p.H, r.precommit.Hash(), r.precommit.V, p.Hash(), p.V)
			return
		}
		if r.precommit == nil {
			r.precommit = p
			if !r.locked {
				r.locked, r.lockView = true, p.V
			}
		}
	case dbft.ChangeViewType:
		if cv, ok := p.Body.(*ChView); ok && r.locked && cv.NewView > r.lockView {
			o.viol(n, "change_view_after_commit", "height %d: asked for view %d after its (pre)commit in view %d", p.H, cv.NewView, r.lockView)
			return
		}
	case dbft.RecoveryMessageType:
		rm, ok := p.Body.(*RecMsg)
		if !ok {
			return
		}
		me := p.Idx
		chk := func(l []*Payload, orig *Payload, what string) bool {
			for _, e := range l {
				if e == nil || e.Idx != me || e.H != p.H {
					continue
				}
				if orig == nil && n.kind == FAmnesia && n.inc > 1 {
					// a restarted node legitimately learns its own earlier (pre)commit
					// from its peers; from then on that copy is the original
					continue
				}
				if orig == nil {
					o.viol(n, "retransmits_unsent_"+what, "height %d: recovery message embeds an own %s %s that was never broadcast", p.H, what, e.Hash())
					return false
				}
				if e.Hash() != orig.Hash() {
					o.viol(n, "retransmission_differs_"+what, "height %d: recovery message embeds own %s %s, the original was %s", p.H, what, e.Hash(), orig.Hash())
					return false
				}
			}
			return true
		}
		if !chk(rm.Commits, r.commit, "commit") || !chk(rm.PreCommits, r.precommit, "precommit") {
			return
		}
		// own preparation of the carried view
		for _, e := range append([]*Payload{rm.PrepReqP}, rm.PrepResps...) {
			if e == nil || e.Idx != me || e.H != p.H {
				continue
			}
			var orig Hash
			var ok bool
			if e.T == dbft.PrepareRequestType {
				orig, ok = r.proposal[e.V]
			} else {
				orig, ok = r.response[e.V]
			}
			if ok && orig != e.Hash() {
				o.viol(n, "retransmission_differs_preparation", "height %d view %d: recovery message embeds own %s %s, the original was %s", p.H, e.V, e.T, e.Hash(), orig)
				return
			}
		}
	}
}

func (o *OracleC03) AfterCall(n *Node, st *Step) {
	if n.d == nil || st.Panic != nil || !n.judged() {
		return
	}
	// A restarted node can get its own earlier commit / pre-commit back from its peers.  Once
	// it holds one under its own index, that payload is the original: whatever (pre)commit it
	// broadcasts later at this height must be identical to it.
	if n.kind == FAmnesia && n.inc > 1 && n.d.MyIndex >= 0 {
		r := o.rec(n, n.d.BlockIndex)
		// ... as long as the node keeps it: if the library itself drops it again (it does not
		// verify against the proposal the node holds now, e.g. its own second proposal for the
		// view - finding L1), nothing obliges this incarnation to it any more.
		if r.adoptedC && n.d.CommitPayloads[n.d.MyIndex] == nil {
			r.commit, r.adoptedC = nil, false
			o.s.note("restarted_node_dropped_recovered_commit")
		}
		if r.adoptedP && n.d.PreCommitPayloads[n.d.MyIndex] == nil {
			r.precommit, r.adoptedP = nil, false
			o.s.note("restarted_node_dropped_recovered_precommit")
		}
		if p, ok := n.d.CommitPayloads[n.d.MyIndex].(*Payload); ok && p != nil && r.commit == nil {
			r.commit = p
			r.adoptedC = true
			o.s.note("restarted_node_recovered_own_commit")
			if p.V != n.d.ViewNumber {
				o.s.note("restarted_node_recovered_own_commit_of_lower_view")
			}
		}
		if p, ok := n.d.PreCommitPayloads[n.d.MyIndex].(*Payload); ok && p != nil && r.precommit == nil {
			r.precommit = p
			r.adoptedP = true
			o.s.note("restarted_node_recovered_own_precommit")
			if p.V != n.d.ViewNumber {
				o.s.note("restarted_node_recovered_own_precommit_of_lower_view")
			}
		}
	}
	k := [2]int{n.id, n.inc}
	m := o.st[k]
	if m == nil {
		return
	}
	r := m[n.d.BlockIndex]
	if r == nil || !r.locked {
		return
	}
	if n.d.ViewNumber != r.lockView {
		o.viol(n, "view_changed_after_commit", "height %d: moved to view %d after its (pre)commit in view %d", n.d.BlockIndex, n.d.ViewNumber, r.lockView)
		return
	}
	// exercised: a committed node got a timeout, change-view or recovery traffic
	if st.Op == OpTimeout || (st.Op == OpReceive && st.P != nil && (st.P.T == dbft.ChangeViewType || st.P.T == dbft.RecoveryMessageType || st.P.T == dbft.RecoveryRequestType)) {
		o.s.st.Exercised = true
	}
}
