package verifsim

import (
	"fmt"

	"github.com/nspcc-dev/dbft"
)

// C16 - dynamic block time, judged on simulated send instants of proposals in
// fault-free synchronous runs.  T = minimum block time, X = maximum block time
// (0: extension off), tol = 4*delta (see OnOut).
type c16Prop struct {
	at   int64
	ntx  int
	view byte
}

type OracleC16 struct {
	BaseOracle
	s        *Sim
	props    map[uint32]c16Prop
	first    uint32
	subAt    map[int]uint32 // node -> height at which it subscribed as primary and has not proposed yet
	injected int
}

func NewOracleC16(s *Sim) *OracleC16 {
	o := &OracleC16{s: s, props: map[uint32]c16Prop{}, first: s.sc.Start + 1, subAt: map[int]uint32{}}
	target := s.sc.Start + uint32(s.sc.Heights)
	s.doneFn = func() bool {
		for _, n := range s.nodes {
			if n.tip().Idx < target {
				return false
			}
		}
		return true
	}
	// transaction arrival process, re-armed whenever a new height is decided somewhere
	s.heightFn = func(h uint32) { o.arrivals(h) }
	return o
}
func (o *OracleC16) Name() string { return "C16" }

func (o *OracleC16) inject(d int64) {
	s := o.s
	s.after(d, &Event{Kind: EvCustom, Fn: func() {
		s.nextTx++
		tx := NewTx(s.nextTx, false)
		s.allTx[tx.Hash()] = tx
		o.injected++
		s.fault("tx_injected")
		for _, n := range s.nodes {
			s.after(1+s.tape.Range(SWork, 0, s.sc.Delta-1), &Event{Kind: EvTxArrive, Node: n.id, Tx: tx})
		}
	}})
}

func (o *OracleC16) arrivals(h uint32) {
	s := o.s
	sc := s.sc
	T, X := int64(sc.TPB), int64(sc.MaxTPB)
	pat := sc.TxArrival
	if pat == 4 {
		pat = 1 + int(s.tape.Draw(SWork, 4))
	}
	switch pat {
	case 1: // never
	case 2: // before the minimum block time has elapsed
		o.inject(s.tape.Range(SWork, 0, 7) * T / 8)
	case 3: // inside the extended wait
		if X > T {
			o.inject(T + s.tape.Range(SWork, 1, 15)*(X-T)/16)
			s.note("arrival_inside_extended_wait")
		} else {
			o.inject(s.tape.Range(SWork, 0, 7) * T / 8)
		}
	case 4: // burst
		k := 2 + int(s.tape.Draw(SWork, 3))
		for i := 0; i < k; i++ {
			hi := T
			if X > T {
				hi = X
			}
			o.inject(s.tape.Range(SWork, 0, 31) * hi / 32)
		}
	}
}

func (o *OracleC16) viol(n *Node, class, f string, a ...any) {
	o.s.Violate("C16", class, n.String()+": "+fmt.Sprintf(f, a...), n.id)
}

func (o *OracleC16) poolEmpty(n *Node) bool {
	for _, tx := range n.pool {
		if !tx.Invalid {
			return false
		}
	}
	return true
}

func (o *OracleC16) OnOut(n *Node, st *Step, out *Out) {
	s := o.s
	sc := s.sc
	T, X := int64(sc.TPB), int64(sc.MaxTPB)
	// one-way delay <= delta; a round-trip sample is at most delta + (Reset delay <= delta) + delta, and the
	// library shortens the primary's timer by half of its estimate: tol = 2*delta + 1.5*delta, rounded up
	tol := 4 * sc.Delta
	switch out.Kind {
	case OSubscribe:
		if X == 0 {
			o.viol(n, "subscription_without_extension", "SubscribeForTxs invoked although no maximum block time is configured")
			return
		}
		if n.d != nil && n.d.IsPrimary() && n.d.ViewNumber == 0 {
			o.subAt[n.id] = n.d.BlockIndex
		}
	case OBroadcast:
		p := out.P
		switch p.T {
		case dbft.PrepareRequestType:
			delete(o.subAt, n.id)
			if _, ok := o.props[p.H]; ok || p.V != 0 {
				return
			}
			pr := p.Body.(*PrepReq)
			cur := c16Prop{at: s.now, ntx: len(pr.Hashes), view: p.V}
			o.props[p.H] = cur
			prev, ok := o.props[p.H-1]
			if !ok || p.H <= o.first {
				return // the first height after Start is excluded: the primary proposes at once by design
			}
			gap := cur.at - prev.at
			if gap < T-tol {
				o.viol(n, "proposals_closer_than_minimum", "height %d proposed %.3f s after height %d, the minimum block time is %.3f s (tolerance %.3f s)", p.H, float64(gap)/1e9, p.H-1, float64(T)/1e9, float64(tol)/1e9)
				return
			}
			// "empty blocks wait the maximum interval": whatever happens in between (also a
			// notification whose transaction is gone again), the next proposal is not later than
			// the maximum block time after the previous one
			if X > 0 && gap > X+tol {
				o.viol(n, "proposal_later_than_maximum", "height %d proposed %.3f s after height %d, the maximum block time is %.3f s (tolerance %.3f s)", p.H, float64(gap)/1e9, p.H-1, float64(X)/1e9, float64(tol)/1e9)
				return
			}
			if st.Op == OpNewTx && st.Evicted && cur.ntx == 0 {
				// the pool notified and the transaction was gone when the library looked: "a
				// notification produces a proposal promptly" and "no empty proposal before the
				// maximum" cannot both be met; the prompt (empty) proposal is what the property's
				// notification clause asks for and is not judged against the other clause
				s.note("prompt_empty_proposal_after_evicted_notification")
				s.st.Exercised = true
				return
			}
			if X > 0 && cur.ntx == 0 && gap < X-tol {
				o.viol(n, "empty_proposal_before_maximum", "height %d: empty proposal %.3f s after the previous one, the maximum block time is %.3f s (tolerance %.3f s)", p.H, float64(gap)/1e9, float64(X)/1e9, float64(tol)/1e9)
				return
			}
			if X > T && cur.ntx == 0 {
				s.note("empty_proposal_at_maximum")
			}
			if X > T && cur.ntx > 0 && gap > T+tol && gap < X-tol {
				s.st.Exercised = true
				s.note("proposal_inside_extended_wait")
			}
		case dbft.ChangeViewType, dbft.RecoveryRequestType:
			if o.poolEmpty(n) {
				o.viol(n, "view_change_because_idle", "%s broadcast at height %d while the node's pool is empty (during %s): nobody is late, the chain is merely idle", p.T, p.H, st.describe())
				return
			}
			// ... and with transactions in the pool a new-transaction notification has exactly one
			// legitimate effect, the pending proposal: never a change-view or recovery request
			if st.Op == OpNewTx {
				o.viol(n, "notification_caused_view_change", "%s broadcast at height %d during %s: a new-transaction notification must only produce the pending proposal", p.T, p.H, st.describe())
				return
			}
		}
	}
}

func (o *OracleC16) AfterCall(n *Node, st *Step) {
	if st.Panic != nil {
		o.viol(n, "panic", "%s panicked: %v", st.describe(), st.Panic)
		return
	}
	// a new-transaction notification while the primary is subscribed and waiting produces the proposal in that very call
	if st.Op == OpNewTx {
		// (if the notified transaction has left the pool again by the time the library looks, a
		// prompt empty proposal and going on waiting for the maximum are both within the property)
		if h, ok := o.subAt[n.id]; ok && n.d != nil && h == st.PreBI && st.PreV == 0 && !st.Evicted {
			o.viol(n, "no_prompt_proposal_on_notification", "height %d: the primary had subscribed for transactions, a transaction reached its pool and OnNewTransaction was called, but no proposal was broadcast in that call", h)
		}
	}
}

func (o *OracleC16) AtEnd(s *Sim) {
	target := s.sc.Start + uint32(s.sc.Heights)
	for _, n := range s.nodes {
		if n.tip().Idx < target {
			s.Violate("C16", "run_did_not_complete", fmt.Sprintf("%s reached height %d only, %d expected (run ended by %q, %.1f s simulated)", n, n.tip().Idx, target, s.st.Truncated, float64(s.now)/1e9), n.id)
			return
		}
	}
}
