#!/usr/bin/env python3
"""C20 - the shipped TLA+ models keep their stated invariants.

The "system" is the specification, so the simulator is TLC's simulation mode:
seeded random walks through each spec's own next-state relation (-simulate
-seed -aril), whose RMBeBad / RMDie / RMFaulty* actions are the fault injection.
Model configurations are generated at check time from the .launch files of the
working tree (constants, state constraint, invariants) for the fault sets the
spec's ASSUME allows at N = 4.  Exhaustive TLC is deliberately not used here.
"""
import hashlib
import json
import os
import re
import shutil
import subprocess
import sys
import time
import xml.etree.ElementTree as ET
from concurrent.futures import ThreadPoolExecutor

V = os.path.dirname(os.path.dirname(os.path.abspath(__file__)))
B = os.path.join(os.environ.get("VERIF_BUILD", os.path.join(V, ".build")), "tla")
OUT = os.environ.get("VERIF_OUT", V)
REPO = os.environ.get("VERIF_REPO", "/repo")
JAR = "/opt/veriftools/tla/tla2tools.jar"
WANTED_INV = ("TypeOK", "InvTwoBlocksAccepted", "InvTwoBlocksAcceptedAdvanced", "InvFaultNodesCount")
FAULT_ACTIONS = ("RMBeBad", "RMDie", "RMFaulty")


def die(msg):
    print("c20: " + msg, file=sys.stderr)
    sys.exit(2)


def specs():
    out = []
    root = os.path.join(REPO, "formal-models")
    for d in sorted(os.listdir(root)):
        p = os.path.join(root, d)
        if not os.path.isdir(p):
            continue
        tl = [f for f in os.listdir(p) if f.endswith(".tla")]
        la = [f for f in os.listdir(p) if f.endswith(".launch")]
        if not tl or not la:
            continue
        out.append((d, os.path.join(p, tl[0]), os.path.join(p, la[0])))
    if len(out) != 5:
        die("expected 5 specifications with launch files, found %d" % len(out))
    return out


def parse_launch(path):
    root = ET.parse(path).getroot()
    consts, invs, constraint = {}, [], ""
    for el in root:
        key = el.get("key")
        if key == "modelParameterConstants":
            for e in el:
                name, _, val = e.get("value").split(";")[:3]
                consts[name] = val
        elif key == "modelCorrectnessInvariants":
            for e in el:
                v = e.get("value")
                if v.startswith("1"):
                    invs.append(v[1:])
        elif key == "modelParameterContraint":
            constraint = el.get("value")
    return consts, invs, constraint


def fault_sets():
    """every (RMFault, RMDead) the ASSUME clauses allow for RM = {0,1,2,3} (F = 1)"""
    out = [("{}", "{}")]
    for i in range(4):
        out.append(("{%d}" % i, "{}"))
        out.append(("{}", "{%d}" % i))
        out.append(("{%d}" % i, "{%d}" % i))
    return out


def configs(tier, seed):
    cfgs = []
    for name, tla, launch in specs():
        consts, invs, constraint = parse_launch(launch)
        text = open(tla).read()
        inv = [i for i in invs if i in WANTED_INV]
        for w in ("TypeOK", "InvFaultNodesCount"):
            if w not in inv:
                die("%s: invariant %s is not enabled in the launch file" % (name, w))
        if not any(i.startswith("InvTwoBlocksAccepted") for i in inv):
            die("%s: no InvTwoBlocksAccepted* invariant enabled in the launch file" % name)
        for i in inv:
            if not re.search(r"^%s\s*==" % re.escape(i), text, re.M):
                die("%s: invariant %s is not defined in the specification" % (name, i))
        fs = fault_sets()
        allc = [(f, d, mv) for mv in (1, 2) for (f, d) in fs]
        if tier == "quick":
            # the shipped all-good configuration plus two seed-chosen fault configurations per spec
            h = int(hashlib.sha256(("%s/%d" % (name, seed)).encode()).hexdigest(), 16)
            faulty = [c for c in allc if c[0] != "{}" or c[1] != "{}"]
            withbad = [c for c in faulty if c[0] != "{}"]
            # the shipped all-good configuration, every single faulty node with two views (the
            # behaviours of the smaller configurations are among theirs), one seed-chosen other
            nobad = [c for c in faulty if c[0] == "{}"]
            sel = [("{}", "{}", int(consts.get("MaxView", "1")))] + [c for c in withbad if c[1] == "{}" and c[2] == 2]
            if ("{}", "{}", 2) not in sel:
                sel.append(("{}", "{}", 2))  # all good nodes, two views
            sel += [nobad[h % len(nobad)], withbad[(h // 97) % len(withbad)]]
        else:
            sel = allc
        for (f, d, mv) in sel:
            c = dict(consts)
            c["RMFault"], c["RMDead"], c["MaxView"] = f, d, str(mv)
            cfgs.append({"spec": name, "tla": tla, "consts": c, "inv": inv, "constraint": constraint})
    return cfgs


def run_one(job):
    idx, cfg, seed, num, depth = job
    d = os.path.join(B, "run%d" % idx)
    shutil.rmtree(d, ignore_errors=True)
    os.makedirs(os.path.join(d, "tr"))
    mod = os.path.basename(cfg["tla"])
    shutil.copy(cfg["tla"], os.path.join(d, mod))
    lines = ["CONSTANTS"] + [" %s = %s" % kv for kv in sorted(cfg["consts"].items())]
    lines += ["INIT Init", "NEXT Next"]
    if cfg["constraint"]:
        lines.append("CONSTRAINT " + cfg["constraint"])
    lines.append("INVARIANTS " + " ".join(cfg["inv"]))
    lines.append("CHECK_DEADLOCK FALSE")
    cfgtext = "\n".join(lines) + "\n"
    open(os.path.join(d, "m.cfg"), "w").write(cfgtext)
    cmd = ["java", "-Djava.io.tmpdir=" + d, "-XX:+UseParallelGC", "-Xmx2g", "-cp", JAR, "tlc2.TLC", "-simulate", "file=%s/tr/t,num=%d" % (d, num), "-depth", str(depth),
           "-seed", str(seed), "-aril", "0", "-workers", "1", "-config", "m.cfg", "-metadir", os.path.join(d, "meta"), mod]
    t0 = time.time()
    try:
        r = subprocess.run(cmd, cwd=d, stdout=subprocess.PIPE, stderr=subprocess.STDOUT, text=True, timeout=3600)
    except subprocess.TimeoutExpired:
        return {"idx": idx, "cfg": cfg, "trouble": "TLC watchdog timeout"}
    out = r.stdout
    res = {"idx": idx, "cfg": cfg, "seed": seed, "num": num, "depth": depth, "wall": time.time() - t0, "cfgtext": cfgtext, "cmd": cmd, "dir": d}
    m = re.search(r"Invariant (\w+) is violated", out)
    if m:
        res["violated"] = m.group(1)
        res["tlc_output"] = out[-20000:]
    elif "Error:" in out or r.returncode not in (0,):
        res["trouble"] = out[-3000:]
    pm = re.findall(r"Progress: (\d+) states checked, (\d+) traces generated", out)
    if pm:
        res["states"], res["traces"] = int(pm[-1][0]), int(pm[-1][1])
    else:
        res["states"], res["traces"] = 0, 0
    # parse the trace files: action-name sequences
    sigs, faulty, samples = set(), set(), []
    trd = os.path.join(d, "tr")
    for f in os.listdir(trd):
        acts = re.findall(r"^\\\* <(\w+)(\([^)]*\))?", open(os.path.join(trd, f)).read(), re.M)
        seq = [a + b for a, b in acts]
        h = hashlib.sha256((cfg["spec"] + "|" + "|".join(seq)).encode()).hexdigest()[:16]
        sigs.add(h)
        if any(a.startswith(FAULT_ACTIONS) for a, _ in acts):
            faulty.add(h)
            if len(samples) < 1:
                samples.append({"spec": cfg["spec"], "RMFault": cfg["consts"]["RMFault"], "RMDead": cfg["consts"]["RMDead"], "MaxView": cfg["consts"]["MaxView"], "actions": seq[:60]})
    res["sigs"], res["faulty_sigs"], res["samples"] = sorted(sigs), sorted(faulty), samples
    shutil.rmtree(os.path.join(d, "tr"), ignore_errors=True)
    shutil.rmtree(os.path.join(d, "meta"), ignore_errors=True)
    return res


def load_known():
    try:
        j = json.load(open(os.path.join(V, "known_findings.json")))
    except Exception as e:  # noqa
        die("cannot read known_findings.json: %s" % e)
    lst = [v for v in j.values() if isinstance(v, list)][0] if isinstance(j, dict) else j
    return [k for k in lst if k.get("property") == "C20" and k.get("status") == "known"]


def reproduce_known(k):
    """replays the recorded behaviour of a known finding against the working tree's
    specification: TLC may only take the step of the spec's own Next relation that leads to
    the next recorded state.  True iff the invariant violation is reproduced."""
    d = os.path.join(B, "known_" + k["id"])
    shutil.rmtree(d, ignore_errors=True)
    os.makedirs(d)
    spec = os.path.join(REPO, "formal-models", k["spec"], k["module"])
    if not os.path.exists(spec):
        return False
    shutil.copy(spec, d)
    for ext in (".tla", ".cfg"):
        shutil.copy(os.path.join(V, "tla", "known", k["script"] + ext), d)
    cmd = ["java", "-Djava.io.tmpdir=" + d, "-XX:+UseParallelGC", "-Xmx1g", "-cp", JAR, "tlc2.TLC", "-workers", "1", "-config", k["script"] + ".cfg",
           "-metadir", os.path.join(d, "meta"), k["script"] + ".tla"]
    try:
        r = subprocess.run(cmd, cwd=d, stdout=subprocess.PIPE, stderr=subprocess.STDOUT, text=True, timeout=600)
    except subprocess.TimeoutExpired:
        return False
    m = re.search(r"Invariant (\w+) is violated", r.stdout)
    shutil.rmtree(d, ignore_errors=True)
    return bool(m) and m.group(1) == k["invariant"]


def is_known(r, known):
    """a violation found by the search is the known finding iff it is in the same
    specification, of the same invariant, with a faulty node allowed, and its last state
    shows the finding's signature: a good node that sent Commit in two different views."""
    cfg = r["cfg"]
    for k in known:
        if cfg["spec"] != k["spec"] or r["violated"] != k["invariant"] or cfg["consts"]["RMFault"] == "{}":
            continue
        # only while the specification is byte-identical to the one the finding was recorded
        # against: any edit of that file (a repair, or another broken guard) gets no suppression
        if hashlib.sha256(open(cfg["tla"], "rb").read()).hexdigest() != k.get("spec_sha256"):
            continue
        last = r["tlc_output"].rsplit("\nState ", 1)[-1]
        bad = set(re.findall(r"\d+", cfg["consts"]["RMFault"]))
        views = {}
        for v, rm in re.findall(r'\[type \|-> "Commit", view \|-> (\d+), rm \|-> (\d+)\]', last):
            if rm not in bad:
                views.setdefault(rm, set()).add(v)
        if any(len(vs) > 1 for vs in views.values()):
            return k
    return None


def replay(path):
    rf = json.load(open(path))
    cfg = rf["config"]
    cfg["tla"] = os.path.join(REPO, "formal-models", cfg["spec"], os.path.basename(cfg["tla"]))
    os.makedirs(B, exist_ok=True)
    r = run_one((9999, cfg, rf["tlc_seed"], rf["num"], rf["depth"]))
    if r.get("violated") == rf["violation"]["class"].replace("invariant_violated_", ""):
        print(r["tlc_output"][-6000:])
        print("REPLAY-REPRODUCED invariant %s violated again" % r["violated"])
        return 0
    print("REPLAY-FAILED (%s)" % (r.get("violated") or r.get("trouble") or "no violation"))
    return 2


def main():
    if len(sys.argv) >= 3 and sys.argv[1] == "--replay":
        sys.exit(replay(sys.argv[2]))
    tier = sys.argv[1] if len(sys.argv) > 1 else "quick"
    seed = int(os.environ.get("VERIF_SEED", "1"))
    workers = int(os.environ.get("VERIF_WORKERS", "16"))
    num = int(os.environ.get("VERIF_TLC_TRACES", 1500 if tier == "quick" else 0))
    depth = 100
    t0 = time.time()
    os.makedirs(B, exist_ok=True)
    os.makedirs(os.path.join(OUT, "replays"), exist_ok=True)
    os.makedirs(os.path.join(OUT, "evidence"), exist_ok=True)
    known = []
    for k in load_known():
        if reproduce_known(k):
            known.append(k)
            print("KNOWN-FINDING: property=C20 %s [%s]" % (k["what"], k["id"]))
        else:
            print("note: known finding %s no longer reproduces; it suppresses nothing" % k["id"])
    cfgs = configs(tier, seed)
    if num == 0:
        # thorough: the walk count follows the time budget (about 150 walks per second and core);
        # the all-good configurations, whose behaviours are the longest, get 5 (one view) or 20 (two views) shares
        budget = float(os.environ.get("VERIF_BUDGET_S", "600"))
        shares = [(20 if c["consts"]["MaxView"] == "2" else 5) if (c["consts"]["RMFault"] == "{}" and c["consts"]["RMDead"] == "{}") else 1 for c in cfgs]
        unit = budget * workers * 150 / sum(shares)
        nums = [max(2000, int(unit * sh)) for sh in shares]
    else:
        nums = [num] * len(cfgs)
    jobs = [(i, c, (seed * 1000003 + i * 7919) % (2 ** 31), nums[i], depth) for i, c in enumerate(cfgs)]
    with ThreadPoolExecutor(max_workers=max(1, workers // 2)) as ex:
        results = list(ex.map(run_one, jobs))
    trouble = [r for r in results if r.get("trouble")]
    if trouble:
        for r in trouble:
            print("TLC trouble in %s %s:\n%s" % (r["cfg"]["spec"], r["cfg"]["consts"], r["trouble"]), file=sys.stderr)
        die("TLC failed for %d configuration(s)" % len(trouble))
    viol = [r for r in results if r.get("violated") and not is_known(r, known)]
    known_hits = [r for r in results if r.get("violated") and is_known(r, known)]
    sigs, fsigs = set(), set()
    for r in results:
        sigs.update(r["sigs"])
        fsigs.update(r["faulty_sigs"])
    samples = [s for r in results for s in r["samples"]][:4] or [{"note": "no trace with a fault action in this batch"}]
    wall = time.time() - t0
    traces = sum(r["traces"] for r in results)
    per_spec = {}
    for r in results:
        k = r["cfg"]["spec"]
        ps = per_spec.setdefault(k, {"configurations": 0, "traces": 0, "states_checked": 0})
        ps["configurations"] += 1
        ps["traces"] += r["traces"]
        ps["states_checked"] += r["states"]
    ev = {
        "property_id": "C20", "tier": tier, "seed": seed, "level": "exploration",
        "coverage": {
            "evaluations": traces, "distinct_nontrivial": len(fsigs),
            "rule": "one evaluation = one seeded random walk (TLC -simulate, depth <= %d) through a specification's Next relation under one generated configuration; non-trivial iff the walk contains a fault action (RMBeBad, RMDie, RMFaulty*); distinct = distinct action-name sequences (sampled, NOT exhaustive)" % depth,
            "samples": samples,
            "states_checked": sum(r["states"] for r in results),
            "distinct_walks": len(sigs),
            "configurations": len(results),
            "per_specification": per_spec,
            "invariants_checked": sorted({i for r in results for i in r["cfg"]["inv"]}),
            "fault_sets": "quick: per specification the shipped all-good configuration, the all-good configuration with MaxView=2, RMFault={i} for every i with MaxView=2, and two seed-chosen other fault configurations; thorough: all 13 (RMFault, RMDead) pairs allowed by ASSUME at N=4 x MaxView in {1,2}, walk counts following the time budget (all-good configurations 5 or 20 shares)",
            "runs_per_hour": int(traces / wall * 3600) if wall > 0 else 0,
            "real_vs_stub": {"real_code": ["the five .tla specifications of formal-models/ from the working tree; constants, constraint and invariants parsed from their .launch files"],
                             "stubs": ["TLC simulation mode chooses the next-state action (seeded)"]},
            "exhaustive": False,
            "known_findings_reproduced": [k["id"] for k in known],
            "known_finding_hits_in_search": len(known_hits),
        },
        "assumptions": ["TLC (tla2tools.jar) is trusted", "random walks sample the reachable states; nothing is enumerated"],
        "wall_s": round(wall, 2), "violations": len(viol),
    }
    json.dump(ev, open(os.path.join(OUT, "evidence", "C20.json"), "w"), indent=1)
    print("C20 %s: %d configurations, %d walks, %d states checked, %d distinct walks with fault actions, wall %.1f s" % (
        tier, len(results), traces, ev["coverage"]["states_checked"], len(fsigs), wall))
    if viol:
        for r in viol:
            path = os.path.join(OUT, "replays", "C20-%d-%d.json" % (seed, r["idx"]))
            cfg = dict(r["cfg"])
            json.dump({"property": "C20", "base_seed": seed, "run_index": r["idx"], "tlc_seed": r["seed"], "num": r["num"], "depth": r["depth"],
                       "config": cfg, "cfg_file": r["cfgtext"], "violation": {"class": "invariant_violated_" + r["violated"], "detail": "%s with %s" % (cfg["spec"], cfg["consts"])},
                       "schedule_and_fault_trace": r["tlc_output"].splitlines()[-400:]}, open(path, "w"), indent=1)
            print("VIOLATION property=C20 replay=%s" % path)
            print("  class=invariant_violated_%s spec=%s constants=%s" % (r["violated"], cfg["spec"], cfg["consts"]))
        sys.exit(1)
    sys.exit(0)


if __name__ == "__main__":
    main()
