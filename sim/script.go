package verifsim

import (
	"time"

	"github.com/nspcc-dev/dbft"
)

// Scripted reproductions of known findings.  They drive real library
// instances through the harness API directly (no tape, no random network), so
// they stay valid however the random scenario generator evolves.  The driver
// runs them before every check of the property they belong to: a reproduced
// script prints the KNOWN-FINDING line, one that no longer reproduces
// suppresses nothing.

type Script struct {
	Name  string
	Prop  string
	Class string
	Run   func() *Violation
}

var Scripts = map[string]*Script{}

// ScriptTrace makes scripted runs record a readable trace (kept in LastScriptSim).
var (
	ScriptTrace   bool
	LastScriptSim *Sim
)

func regScript(s *Script) { Scripts[s.Name] = s }

func scriptScenario(n int, amev int64) *Scenario {
	vals := make([]int, n)
	for i := range vals {
		vals[i] = i
	}
	return &Scenario{Family: "script", NIdent: n, Epochs: []Epoch{{From: 0, Vals: vals}}, Start: 0, Heights: 1, AMEV: amev,
		TPB: time.Second, TSInc: 1_000_000, Fault: make([]FaultKind, n), FlagWO: make([]bool, n), Brains: 2,
		LatBase: int64(time.Millisecond), GST: -1, Epoch0: 1_000_000_000 * 1_000_000_000, MaxEvents: 100000,
		MaxTime: int64(time.Hour), MaxViews: 8}
}

// newManualSim boots every node with a network that delivers nothing by itself.
func newManualSim(sc *Scenario) *Sim {
	var zero [nStreams][]uint64
	s := NewSim(sc, NewReplayTape(zero))
	s.manual = true
	s.record = ScriptTrace
	LastScriptSim = s
	for _, n := range s.nodes {
		n.boot()
	}
	return s
}

func (s *Sim) nodeOf(ident int) *Node {
	for _, n := range s.nodes {
		if n.ident == ident {
			return n
		}
	}
	return nil
}

// give delivers a payload to a node right now.
func (s *Sim) give(n *Node, p *Payload) {
	s.now += int64(time.Millisecond)
	c := p.Clone()
	n.call(&Step{Op: OpReceive, P: c}, func() { n.d.OnReceive(c) })
}

// sent returns the last payload of the given type broadcast by the node.
func (s *Sim) sent(n *Node, t dbft.MessageType) *Payload {
	for i := len(s.authentic) - 1; i >= 0; i-- {
		p := s.authentic[i]
		if p.T == t && p.sender == n.id {
			return p
		}
	}
	return nil
}

// forge builds a payload signed with the key of one identity (the scripts use
// it only for the identity they declare Byzantine).
func (s *Sim) forge(ident int, t dbft.MessageType, h uint32, v byte, body any) *Payload {
	p := &Payload{T: t, H: h, V: v, Idx: uint16(s.sc.IndexAt(h, ident)), Body: body, sender: -1}
	p.sign(s.kr.Priv(ident))
	return p
}

func init() {
	// D1, commit flavour: a commit with a garbage signature that arrives before
	// the proposal is stored, never re-validated, and counted towards M.
	regScript(&Script{Name: "D1_early_invalid_commit_counted", Prop: "C02", Class: "cert_counts_unverified_early_commit", Run: func() *Violation {
		sc := scriptScenario(4, -1)
		sc.Fault[3] = FByz
		s := newManualSim(sc)
		s.AddOracle(NewOracleC02(s))
		n0, n1, n2 := s.nodeOf(0), s.nodeOf(1), s.nodeOf(2) // height 1: primary is validator 1
		bad := s.forge(3, dbft.CommitType, 1, 0, &CommitBody{Sig: s.kr.Priv(3).Sign([]byte("garbage"))})
		s.give(n0, bad) // before the proposal
		req := s.sent(n1, dbft.PrepareRequestType)
		if req == nil {
			return nil
		}
		s.give(n0, req)
		s.give(n2, req)
		r0, r2 := s.sent(n0, dbft.PrepareResponseType), s.sent(n2, dbft.PrepareResponseType)
		if r0 == nil || r2 == nil {
			return nil
		}
		s.give(n0, r2)
		s.give(n2, r0)
		c2 := s.sent(n2, dbft.CommitType)
		if c2 == nil {
			return nil
		}
		s.give(n0, c2) // own + n2's + garbage = M
		return s.viol
	}})
	// D1, pre-commit flavour (anti-MEV).
	regScript(&Script{Name: "D1_early_invalid_precommit_counted", Prop: "C02", Class: "precert_counts_unverified_early_precommit", Run: func() *Violation {
		sc := scriptScenario(4, 0)
		sc.Fault[3] = FByz
		s := newManualSim(sc)
		s.AddOracle(NewOracleC02(s))
		n0, n1, n2 := s.nodeOf(0), s.nodeOf(1), s.nodeOf(2)
		bad := s.forge(3, dbft.PreCommitType, 1, 0, &PreCommitBody{D: s.kr.Priv(3).Sign([]byte("garbage"))})
		s.give(n0, bad)
		req := s.sent(n1, dbft.PrepareRequestType)
		if req == nil {
			return nil
		}
		s.give(n0, req)
		s.give(n2, req)
		r0, r2 := s.sent(n0, dbft.PrepareResponseType), s.sent(n2, dbft.PrepareResponseType)
		if r0 == nil || r2 == nil {
			return nil
		}
		s.give(n0, r2)
		s.give(n2, r0)
		p2 := s.sent(n2, dbft.PreCommitType)
		if p2 == nil {
			return nil
		}
		s.give(n0, p2)
		return s.viol
	}})
	// D1 turned into a fork by one Byzantine primary out of four.
	regScript(&Script{Name: "D1_fork_by_equivocating_primary", Prop: "C01", Class: "fork_via_unverified_early_commit", Run: func() *Violation {
		sc := scriptScenario(4, -1)
		sc.Fault[1] = FByz // validator 1 is the primary of height 1, view 0
		s := newManualSim(sc)
		s.AddOracle(NewOracleC01(s))
		n0, n2, n3 := s.nodeOf(0), s.nodeOf(2), s.nodeOf(3)
		ts := s.genesis.TS + sc.TSInc
		propA := s.forge(1, dbft.PrepareRequestType, 1, 0, &PrepReq{TS: ts, Nnc: 0xA, Hashes: []Hash{}})
		propB := s.forge(1, dbft.PrepareRequestType, 1, 0, &PrepReq{TS: ts, Nnc: 0xB, Hashes: []Hash{}})
		hdr := func(nonce uint64) *Block {
			return &Block{Header: Header{Idx: 1, Prev: s.genesis.Hash(), TS: ts, Nonce: nonce, TxHashes: []Hash{}}}
		}
		sign := func(b *Block) *Payload {
			h := b.Hash()
			return s.forge(1, dbft.CommitType, 1, 0, &CommitBody{Sig: s.kr.Priv(1).Sign(h[:])})
		}
		s.give(n0, propA)
		s.give(n2, propA)
		r0, r2 := s.sent(n0, dbft.PrepareResponseType), s.sent(n2, dbft.PrepareResponseType)
		if r0 == nil || r2 == nil {
			return nil
		}
		s.give(n0, r2) // request + own + n2 = M: n0 commits to A
		s.give(n2, r0)
		c0, c2 := s.sent(n0, dbft.CommitType), s.sent(n2, dbft.CommitType)
		if c0 == nil || c2 == nil {
			return nil
		}
		s.give(n3, c0) // n3 has no proposal yet: stored unverified
		s.give(n3, c2)
		s.give(n3, propB)
		s.give(n3, sign(hdr(0xB))) // one valid commit + two for another block = M: n3 accepts B
		s.give(n0, c2)
		s.give(n0, sign(hdr(0xA))) // n0 accepts A
		return s.viol
	}})
	// L1: protocol-level liveness lock of dBFT 2.0 - a primary that restarts with
	// empty state proposes twice for the same view.
	regScript(&Script{Name: "L1_stall_restarted_primary_proposes_twice", Prop: "C09", Class: "stall_commit_lock_with_split_proposals", Run: func() *Violation {
		sc := scriptScenario(4, -1)
		sc.Family = "gst"
		sc.Start = 4 // height 5: validator 1 is primary and proposes at Start
		sc.Fault[1] = FAmnesia
		sc.GST = 0
		sc.Delta = int64(time.Millisecond)
		sc.Heights = 3
		sc.MaxTime = 400 * int64(sc.TPB)
		sc.MaxEvents = 1000000
		sc.SyncEvery = int64(sc.TPB)
		var zero [nStreams][]uint64
		s := NewSim(sc, NewReplayTape(zero))
		s.nodeOf(1).scriptCrashSends = 2 // the first proposal reaches validators 0 and 2 only
		s.AddOracle(NewOracleC09(s))
		s.Run()
		return s.viol
	}})
	// L2: the dBFT 2.0 commit lock across views - one validator that forgets its state
	// (it asked for view 1, restarts, and commits in view 0) splits the honest ones.
	regScript(&Script{Name: "L2_stall_commit_lock_across_views", Prop: "C09", Class: "stall_commit_lock_across_views", Run: func() *Violation {
		sc := scriptScenario(4, -1)
		sc.Family = "gst"
		sc.Start = 5 // height 6: validator 2 is the primary of view 0, validator 1 of view 1
		sc.Fault[1] = FAmnesia
		sc.GST = 0
		sc.Delta = int64(time.Millisecond)
		sc.Heights = 3
		sc.MaxTime = 400 * int64(sc.TPB)
		sc.MaxEvents = 1000000
		sc.SyncEvery = int64(sc.TPB)
		s := newManualSim(sc)
		s.AddOracle(NewOracleC09(s))
		n0, n1, n2, n3 := s.nodeOf(0), s.nodeOf(1), s.nodeOf(2), s.nodeOf(3)
		timeout := func(n *Node) {
			s.now += int64(time.Millisecond)
			h, v := n.d.BlockIndex, n.d.ViewNumber
			n.call(&Step{Op: OpTimeout, TH: h, TV: v}, func() { n.d.OnTimeout(h, v) })
		}
		// validator 2 (primary) has proposed at Start; its proposal is still in flight.
		// The backups time out: first recovery requests (nobody heard anybody yet) ...
		timeout(n0)
		timeout(n1)
		timeout(n3)
		for _, n := range []*Node{n0, n1, n3} {
			rr := s.sent(n, dbft.RecoveryRequestType)
			if rr == nil {
				return nil
			}
			for _, m := range []*Node{n0, n1, n3} {
				if m != n {
					s.give(m, rr)
				}
			}
		}
		// ... then, having heard from each other, change-view requests for view 1
		timeout(n0)
		timeout(n1)
		timeout(n3)
		cv0, cv1, cv3 := s.sent(n0, dbft.ChangeViewType), s.sent(n1, dbft.ChangeViewType), s.sent(n3, dbft.ChangeViewType)
		if cv0 == nil || cv1 == nil || cv3 == nil {
			return nil
		}
		// the proposal arrives late at 1 and 3; being view-changing does not stop them from
		// answering; with their two responses the primary commits in view 0
		req := s.sent(n2, dbft.PrepareRequestType)
		if req == nil {
			return nil
		}
		s.give(n1, req)
		s.give(n3, req)
		r1, r3 := s.sent(n1, dbft.PrepareResponseType), s.sent(n3, dbft.PrepareResponseType)
		if r1 == nil || r3 == nil {
			return nil
		}
		s.give(n2, r1)
		s.give(n2, r3)
		if s.sent(n2, dbft.CommitType) == nil {
			return nil
		}
		// validators 0 and 3 collect the three change-view requests and move to view 1
		s.give(n0, cv1)
		s.give(n0, cv3)
		s.give(n3, cv0)
		s.give(n3, cv1)
		// validator 1 restarts with empty state and is brought back into view 0 by the primary
		n1.crash()
		n1.boot()
		timeout(n2) // the committed primary resends its state as a recovery message
		if rm := s.sent(n2, dbft.RecoveryMessageType); rm != nil {
			s.give(n1, rm)
		}
		// from here on the network is synchronous and fault-free
		s.manual = false
		for i := range s.nodes {
			s.after(sc.SyncEvery+int64(i), &Event{Kind: EvSyncPoll, Node: i})
		}
		s.loop()
		s.st.SimTime = s.now
		for _, o := range s.oracles {
			if s.viol == nil {
				o.AtEnd(s)
			}
		}
		return s.viol
	}})
	// L3: the dBFT 2.0 commit lock with a crashed node - the primary commits in view 0 with the
	// answers of backups that had already asked for view 1; a validator that was heard at this
	// height stops for good, so it is never counted as lost; the remaining two ignore each
	// other's preparations (they are view-changing) and can collect neither M commits nor M
	// change-view requests.
	regScript(&Script{Name: "L3_stall_commit_lock_with_crashed_node", Prop: "C09", Class: "stall_commit_lock_with_crashed_node", Run: func() *Violation {
		sc := scriptScenario(4, -1)
		sc.Family = "gst"
		sc.Start = 5 // height 6: validator 2 is the primary of view 0
		sc.Fault[0] = FAmnesia
		sc.GST = 0
		sc.Delta = int64(time.Millisecond)
		sc.Heights = 3
		sc.MaxTime = 400 * int64(sc.TPB)
		sc.MaxEvents = 1000000
		sc.SyncEvery = int64(sc.TPB)
		s := newManualSim(sc)
		s.AddOracle(NewOracleC09(s))
		n0, n1, n2, n3 := s.nodeOf(0), s.nodeOf(1), s.nodeOf(2), s.nodeOf(3)
		timeout := func(n *Node) {
			s.now += int64(time.Millisecond)
			h, v := n.d.BlockIndex, n.d.ViewNumber
			n.call(&Step{Op: OpTimeout, TH: h, TV: v}, func() { n.d.OnTimeout(h, v) })
		}
		// validator 2 (primary) has proposed at Start; its proposal is still in flight.
		// The backups time out: recovery requests first (nobody heard anybody yet) ...
		timeout(n0)
		timeout(n1)
		timeout(n3)
		for _, n := range []*Node{n0, n1, n3} {
			rr := s.sent(n, dbft.RecoveryRequestType)
			if rr == nil {
				return nil
			}
			for _, m := range []*Node{n0, n1, n3} {
				if m != n {
					s.give(m, rr)
				}
			}
		}
		// ... then change-view requests for view 1 from 1 and 3
		timeout(n1)
		timeout(n3)
		if s.sent(n1, dbft.ChangeViewType) == nil || s.sent(n3, dbft.ChangeViewType) == nil {
			return nil
		}
		// validator 0 stops for good; it has been heard at this height
		n0.crash()
		// the proposal arrives late at 1 and 3, they answer, the primary commits in view 0
		req := s.sent(n2, dbft.PrepareRequestType)
		if req == nil {
			return nil
		}
		s.give(n1, req)
		s.give(n3, req)
		r1, r3 := s.sent(n1, dbft.PrepareResponseType), s.sent(n3, dbft.PrepareResponseType)
		if r1 == nil || r3 == nil {
			return nil
		}
		s.give(n2, r1)
		s.give(n2, r3)
		if s.sent(n2, dbft.CommitType) == nil {
			return nil
		}
		// from here on the network is synchronous and fault-free; every later message
		// (responses, commit, change views, recovery traffic) is delivered
		s.give(n3, r1)
		s.give(n1, r3)
		s.manual = false
		for i := range s.nodes {
			s.after(sc.SyncEvery+int64(i), &Event{Kind: EvSyncPoll, Node: i})
		}
		s.loop()
		s.st.SimTime = s.now
		for _, o := range s.oracles {
			if s.viol == nil {
				o.AtEnd(s)
			}
		}
		return s.viol
	}})
	// V1: a primary that is brought into its view by a recovery message waits the backups'
	// timeout instead of proposing at once; everybody times out together, a view is wasted.
	regScript(&Script{Name: "V1_view_wasted_primary_enters_view_by_recovery", Prop: "C09", Class: "view_wasted_primary_entered_view_by_recovery", Run: func() *Violation {
		sc := scriptScenario(7, -1)
		sc.Family = "gst"
		sc.Start = 2 // height 3: validator 3 (silent) is the primary of view 0, validator 2 of view 1, validator 1 of view 2
		sc.Fault[3] = FSilent
		sc.Sub = 0
		sc.GST = 0
		sc.Delta = int64(time.Millisecond)
		sc.Heights = 3
		sc.MaxTime = 400 * int64(sc.TPB)
		sc.MaxEvents = 1000000
		sc.SyncEvery = int64(sc.TPB)
		s := newManualSim(sc)
		s.AddOracle(NewOracleC09(s))
		timeout := func(n *Node) {
			s.now += int64(time.Millisecond)
			h, v := n.d.BlockIndex, n.d.ViewNumber
			n.call(&Step{Op: OpTimeout, TH: h, TV: v}, func() { n.d.OnTimeout(h, v) })
		}
		var all []*Node
		for _, id := range []int{0, 1, 2, 4, 5, 6} {
			all = append(all, s.nodeOf(id))
		}
		n2, n4 := s.nodeOf(2), s.nodeOf(4)
		// nobody has heard anybody: the first timeouts produce recovery requests
		for _, n := range all {
			timeout(n)
		}
		for _, n := range all {
			if rr := s.sent(n, dbft.RecoveryRequestType); rr != nil {
				for _, m := range all {
					if m != n {
						s.give(m, rr)
					}
				}
			}
		}
		// second timeouts: change-view requests for view 1
		cvs := map[*Node]*Payload{}
		for _, n := range all {
			timeout(n)
			cvs[n] = s.sent(n, dbft.ChangeViewType)
			if cvs[n] == nil {
				return nil
			}
		}
		// everybody but validator 2 gets the requests directly and enters view 1
		for _, n := range all {
			if n == n2 {
				continue
			}
			for _, m := range all {
				if m != n {
					s.give(n, cvs[m])
				}
			}
			if n.d.ViewNumber != 1 {
				return nil
			}
		}
		// late duplicates of the requests make the five answer with recovery messages, through
		// which they hear from each other in view 1 (so that their next timeout really asks for
		// view 2 instead of only requesting recovery)
		for _, n := range all {
			if n == n2 {
				continue
			}
			for _, m := range all {
				if m != n && m != n2 {
					s.give(n, cvs[m])
				}
			}
		}
		for _, n := range all {
			if n == n2 {
				continue
			}
			if r := s.sent(n, dbft.RecoveryMessageType); r != nil {
				for _, m := range all {
					if m != n && m != n2 {
						s.give(m, r)
					}
				}
			}
		}
		// validator 2 (the primary of view 1) learns the requests from validator 4's recovery
		// message, sent in reply to its repeated change-view request
		s.give(n4, cvs[n2])
		rm := s.sent(n4, dbft.RecoveryMessageType)
		if rm == nil || n2.d.ViewNumber != 0 {
			return nil
		}
		s.give(n2, rm)
		if n2.d.ViewNumber != 1 {
			return nil
		}
		// from here on the network is synchronous and fault-free
		s.manual = false
		for i := range s.nodes {
			s.after(sc.SyncEvery+int64(i), &Event{Kind: EvSyncPoll, Node: i})
		}
		s.loop()
		for _, o := range s.oracles {
			if s.viol == nil {
				o.AtEnd(s)
			}
		}
		return s.viol
	}})
}
