#!/usr/bin/env python3
"""Generates /verif/MANIFEST.json from the table below (kept next to the code so
that the manifest and the checks cannot drift apart)."""
import json, os
V = os.path.dirname(os.path.dirname(os.path.abspath(__file__)))

SIM_NOTE = ("trusted: the simulator harness (kernel, choice tape, simulated network/clock/timer/application, MAC crypto stub, "
            "oracles), Go 1.26.8 runtime; real code: all of package dbft built from the working tree through a build-time "
            "overlay (verif-tagged read-only accessors, map-order control); sampled schedules/fault sequences, bounds N<=10, "
            "<=8 heights and <=8 views per height per run")
TECH = "deterministic simulation with fault injection: seeded search over schedules/fault sequences of real dbft instances, invariants per step and over the history, replayable minimised traces"

NOTES = {
 "C17": "trusted: testing/synctest (fake clock, quiescence), the baton scheduler and the oracle in hooks/simulation_test.go.txt; real code: the example program, package dbft, internal/consensus|crypto|merkle, timer; the seed fixes the scenario and the baton choices, not the runtime's select choice (measured divergence is reported)",
 "C18": "trusted: testing/synctest fake clock, the reference deadline model in sim/c18_test.go; real code: timer/timer.go",
 "C20": "trusted: TLC (tla2tools.jar), the .launch parser and configuration generator in tla/c20.py; real artefacts: the five .tla specifications; sampled walks only",
}
TECHS = {
 "C17": "deterministic simulation: real program in a synctest bubble (fake clock) with a seeded goroutine scheduler, progress and agreement oracle",
 "C18": "deterministic simulation: real timer under a fake clock, seeded operation sequences against a reference deadline model, with shrinking",
 "C20": "seeded random simulation of the TLA+ specifications (TLC -simulate) with the specs' own fault actions; invariants checked on every visited state",
}
CHECKS = {
 "C01": ("5.1", "Many thousands of seeded whole-cluster simulations (1-10 validators, <=F Byzantine / split-brain / amnesia "
         "identities driven by random, yes-man and equivocating-primary adversary modes, hostile network incl. event-triggered cuts at the first commit / change view, early timers, validator-set changes, anti-MEV off/on/switching) with the agreement "
         "invariant checked at every ProcessBlock and every ledger-sync block. A fork needs a conjunction of schedule and "
         "faults; sampling that space with real nodes is the strongest practical evidence short of a proof of the protocol "
         "implementation. One known finding (D1 consequence) is reported as KNOWN-FINDING. One run in twelve is a 'ref' family run: honest-code clusters on the repository's own payload/crypto/codec code under loss, duplication, long delays, partitions, up to F amnesia restarts and block sync, judged for agreement and panics."),
 "C02": ("5.2", "The same adversarial simulations with the decision certificate re-verified by the oracle inside every "
         "ProcessBlock/ProcessPreBlock callback (signatures recomputed, view filter, M recomputed, parent/index against "
         "the tip reported at initialisation, content against the proposals the harness saw). Two known findings (D1, "
         "commit and pre-commit flavour)."),
}

CHECKS.update({
 "C03": ("5.3", "History-wide oracle over every library instance's complete outbox in the adversarial simulations: one proposal/response hash per view, one commit and one pre-commit per height, no view change and no change-view request after the (pre)commit, retransmissions (direct or embedded in recovery messages) identical to the original, non-decreasing view of own top-level messages. One run in six starts from a directed prefix (a validator votes alone, crashes, the others change view, it restarts and gets its own vote back) before the seeded network takes over; restarted validators get their own earlier payloads echoed back."),
 "C04": ("5.4", "Precondition of every prepare response, commit/pre-commit and view increase re-evaluated at the instant it happens, from the node's tables and from the harness's independent record of authentic deliveries (exact and superset tests), with N not of the form 3F+1 included."),
 "C05": ("5.5", "Multi-height adversarial simulations with slow Reset, ledger sync that skips heights and changing validator sets: one decision per initialisation, whole-state fingerprint unchanged by every call on a decided node (except recovery replies), a full post-Reset audit including the unexported future-message cache (verif accessor), and: every payload for a future height whose sender is a validator of that height is kept (the sender's cache slot for that height is not empty when OnReceive returns; a pre-commit for a height without anti-MEV may be dropped), stays cached until its view comes, and a cached (pre)commit of the new height is in its slot after the Reset. Timing taken afresh: the timer armed by Start/Reset/a view change is compared with what a fresh detached instance of the library under test arms (no mirrored constants), and may be shorter only by the time spent at the previous height plus the longest round trip the incarnation can have measured."),
 "C07": ("5.7", "Per-instance automaton over callback/broadcast order in simulations with the anti-MEV extension on from genesis or switching on mid-run, failing ProcessPreBlock/ProcessBlock callbacks, early pre-commits, observers."),
 "C10": ("5.10", "Timer audit after every API call of every undecided validator in all adversarial simulations (armed, right height/view, non-negative duration, expiry not consumed), views capped at 8 per height."),
 "C12": ("5.12", "Obligation tracking per (node, height, view): union of RequestTx arguments vs OnTransaction supplies under the property's precondition, in simulations biased to differing mempools, invalid transactions, slow supply and cached next-view proposals (the nested case)."),
 "C13": ("5.13", "Broadcast / Block.Sign / PreBlock.SetData of observers, flagged validators and validators restarted in watch-only mode are violations at the instant they happen (scenarios place the flagged validator at the primary position at Start and after Resets, make proposals fail verification, let verification callbacks reject); plus a differential pair run: the same tape with the special node never started must give the other nodes identical canonical traces."),
 "C14": ("5.14", "Every tape is executed twice against clocks that differ by a constant offset (seconds to decades, both signs, on both sides of the machine's wall clock); canonical traces (timestamps relative to the epoch, hashes as ordinals, timer durations verbatim) must be identical."),
 "C08": ("5.8", "Fault-free synchronous simulations (all honest, latency <= delta << T, exact timers) in which the tape permutes and duplicates the deliveries of every round and delays one node's Reset by up to 1.5 T so that next-height traffic is cached: every validator decides every height in view 0 on the same block and nobody broadcasts a change-view or recovery request. In a third of the runs without dynamic block time one node's pool misses most transactions (it has to request them; the application supplies within delta and, in half of the runs, forgets open requests when StopTxFlow is called). One run in ten is a 'ref' family run: the same oracle on a cluster wired to the repository's own internal/consensus payloads, internal/crypto P-256 signatures and gob wire codec (every payload encoded at the sender, decoded at each recipient)."),
 "C09": ("5.9", "Bounded liveness in GST simulations: <=F validators silent from the start (incl. the first primaries), arbitrary cut sets/instants/durations, amnesia restarts at arbitrary points (between calls, inside Broadcast, inside ProcessBlock); after faults stop every live validator must advance 3 heights within 400 T; with silence from the start on a synchronous network the deciding view is <= the number of silent validators; a budgeted faulty validator may also stop for good (crash-stop); step rules: a validator that holds nothing of its view takes the authentic proposal out of a recovery message of that view; a lagging validator given an honest validator's recovery message from a higher view ends the call in a higher view. Protocol-level known findings L1, L2, L3 (commit-lock stalls) and V1 (one wasted view), each with a scripted reproduction. One run in twelve is a 'ref' family run (reference payload/crypto/codec code, up to F validators silent from the start, synchrony from t=0, block sync: every live validator reaches the target height, all blocks equal)."),
 "C15": ("5.15", "Every proposal of an honest-code primary is compared with an expectation recomputed from the clock reading and pool content the library obtained in that very call, under clock skew, backward/forward clock steps, unaligned clocks and increments 1, 7, 1000, 1e6, 7e6, 1e9, 999999937 ns; the primary's own block must carry the same values."),
 "C16": ("5.16", "Fault-free synchronous simulations with the maximum-block-time extension at ratios 1, 1.5, 2, 3, 8 (and off), N=1..7, transaction arrival processes (never / before the minimum / inside the extended wait / bursts) re-armed at every decided height: proposal spacing judged on simulated send instants (tolerance 4*delta), prompt proposal inside the OnNewTransaction call (when the notified transaction has left every pool again by the time the library looks, a prompt empty proposal and going on waiting are both accepted), no proposal later than the maximum block time after the previous one, no change-view/recovery request from a node whose pool is empty, no subscription without the extension; fault kinds: a notified transaction evicted before the library looks, and a verified pool that is empty at a second read inside one library call."),
 "C11": ("5.11", "Half of the evaluations are hostile cluster runs in which, at tape-chosen points, one node is given an input that an independent classifier labels inadmissible (index outside the list, past height, proposal from a non-primary, proposal/response of a lower view, response from the primary, a response naming another proposal than the one held, a current-view vote whose signature/data does not verify against the header/pre-block the node holds, pre-commit while anti-MEV is off, unrequested transaction, timeout of another epoch) or a payload it already holds: whole-state fingerprint (exported tables, unexported state and future-message cache through the verif accessor, simulated timer) unchanged except the sender's last-seen entry, no broadcast (a recovery message is allowed for redeliveries), no timer call. The other half are API fuzz sequences (300-600 calls, 1-4 instances, arbitrary well-typed payloads, rejecting verification callbacks, failing ProcessBlock/ProcessPreBlock, validator set / own index / watch-only flag changing at Reset). Every call, organic or injected, runs under recover() with a development-mode logger, so DPanic assertions count as panics."),
 "C17": ("5.17", "The real example program (initNodes, updatePublicKeys, every node's Run loop, real timer.Timer, real ECDSA) runs for 60-120 simulated seconds inside a testing/synctest bubble under a seeded baton scheduler that picks which parked goroutine proceeds at every library log call; 1-7 validators, 0-2 watch-only nodes, optional blocked validator; every validator must reach at least half (a quarter with a blocked validator) of duration/5s heights and all nodes must approve the same blocks. Same-seed trace divergence (runtime select choice) is measured and reported; the oracle holds under every schedule."),
 "C18": ("5.18", "Real timer.Timer in a testing/synctest bubble (exact fake clock), tape-generated sequences of 3-40 Reset/Extend/sleep/poll/wait operations with zero, short and long durations, against a reference deadline model: never early, delivered exactly at the deadline to a waiting reader, immediate for zero duration, Height/View of the latest reset, nothing armed earlier is read before the new deadline. Fully deterministic; failing sequences shrink to a handful of operations."),
 "C20": ("5.20", "TLC simulation mode (seeded random walks, depth <= 100) over each of the five shipped specifications with configurations generated from the .launch files in the working tree, invariants TypeOK, InvTwoBlocksAccepted[Advanced], InvFaultNodesCount; quick: per spec the shipped all-good configuration, every single-faulty-node configuration with MaxView 2 and 2 seed-chosen others (1500 walks each), thorough: all 13 fault-set pairs x MaxView 1,2 (6000 walks each). Sampled, not exhaustive: exhaustive TLC would be a different technique. One known finding (S1: the shipped dbftCV3 model with a faulty node), reproduced by replaying its recorded behaviour against the working tree's Next relation."),
})
PLANNED = {}
NOT_APPLICABLE = {
 "C06": "pure function of three integers (N, height, view) with no schedule, clock, fault or interleaving in it; deciding it is enumeration of a finite domain, a different technique (DESIGN.md section 6). The simulator recomputes F, M and the primary independently in its oracles for N<=10, which is supporting evidence only.",
 "C19": "pure functions of their inputs (hash sensitivity, codec round trip, decoder robustness, signatures, Merkle root); deciding it is input generation/mutation, not simulation (DESIGN.md section 6).",
}
for p in ["C03","C04","C05","C07","C08","C09","C10","C11","C12","C13","C14","C15","C16","C17","C18","C20"]:
    if p not in CHECKS:
        PLANNED[p] = "check not built yet in this session (planned, see DESIGN.md section 5); not claimed until its check exists and passes on the unchanged tree"

m = {
 "version": 1,
 "setup_cmd": "./check setup",
 "hooks": {
  "guard": "verif",
  "enable": "no source changes in /repo: hooks are added at build time with `go test -tags verif -overlay .build/overlay/overlay.json` generated by tools/mkoverlay from the current working tree (adds zz_verif_hooks.go to package dbft and internal/simulation, rewrites range-over-map-field loops to an order the simulator controls)",
  "baseline_off_cmd": "cd /repo && GOFLAGS=-mod=mod go test -vet=off -count=1 -timeout 25m ./...",
  "source_commits": [],
  "add_only": True,
 },
 "engines": [
  {"name": "bubble17", "path": "hooks/simulation_test.go.txt", "serves_properties": ["C17"], "kind_free_text": "the real example program inside a testing/synctest bubble with a seeded baton scheduler (overlay-added test entry point)"},
  {"name": "tlcsim", "path": "tla/c20.py", "serves_properties": ["C20"], "kind_free_text": "TLC simulation mode driver: configuration generator from .launch files, seeded random walks, trace parsing"},
  {"name": "verifsim", "path": "sim/", "serves_properties": sorted(k for k in CHECKS.keys() if k not in ("C17", "C20")),
   "kind_free_text": "discrete-event deterministic simulator of whole dbft clusters: choice tape (one seed), simulated clock/timer/network/application, Byzantine adversary, oracles, shrinker, replay files"},
 ],
 "checks": [],
 "not_applicable": [],
 "notes": "Technique family: deterministic simulation with fault injection. ./check <ID> quick|thorough; VERIF_SEED, VERIF_BUDGET_S, VERIF_WORKERS honoured. quick: 40 s, 1-10 validators, up to 6 heights per run; thorough: 600 s and every second worker explores a wider scenario space (1-13 validators, up to 12 heights per run, three times the event cap). Exit 0 held / 1 VIOLATION / 2 harness trouble. Known findings: known_findings.json.",
}
for pid in sorted(CHECKS):
    ref, text = CHECKS[pid]
    m["checks"].append({
     "property_id": pid,
     "quick_cmd": "./check %s quick" % pid,
     "thorough_cmd": "./check %s thorough" % pid,
     "evidence_file": "/verif/evidence/%s.json" % pid,
     "replay_cmd_template": "./check --replay {path}",
     "engine": {"C17": "bubble17", "C20": "tlcsim"}.get(pid, "verifsim"),
     "level_claimed": {"category": "exploration", "text": text, "design_ref": "DESIGN.md section " + ref},
     "level_note": NOTES.get(pid, SIM_NOTE),
     "technique": TECHS.get(pid, TECH),
    })
for pid in sorted(list(NOT_APPLICABLE) + list(PLANNED)):
    m["not_applicable"].append({"property_id": pid, "reason": NOT_APPLICABLE.get(pid) or PLANNED[pid]})
json.dump(m, open(os.path.join(V, "MANIFEST.json"), "w"), indent=1)
print("MANIFEST.json: %d checks, %d not claimed" % (len(m["checks"]), len(m["not_applicable"])))
