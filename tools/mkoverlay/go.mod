module mkoverlay

go 1.24
