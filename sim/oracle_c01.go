package verifsim

import "fmt"

// C01 - agreement: all blocks that honest nodes hand to the application at one
// height are identical.  Blocks obtained through ledger sync are checked too.
type OracleC01 struct {
	BaseOracle
	s       *Sim
	decided map[uint32]Hash
	who     map[uint32]int
	nodesAt map[uint32]int
}

func NewOracleC01(s *Sim) *OracleC01 {
	return &OracleC01{s: s, decided: map[uint32]Hash{}, who: map[uint32]int{}, nodesAt: map[uint32]int{}}
}

func (o *OracleC01) Name() string { return "C01" }

func (o *OracleC01) check(n *Node, idx uint32, h Hash, how string) {
	if prev, ok := o.decided[idx]; ok {
		if prev != h {
			// Classification: if some acceptance at this height counted commits that do
			// not verify against the accepted block and every such commit was taken in
			// before the node knew the proposal, the fork is a consequence of the known
			// finding D1 (early commits are never re-validated).
			class := "fork"
			// (only an acceptance of one of the two conflicting blocks counts, and the other
			// block must have been accepted by somebody on a fully valid certificate)
			d1, sound := false, false
			for _, a := range o.s.accepts[idx] {
				if a.hash != h && a.hash != prev {
					continue
				}
				if a.cert.knownD1() {
					d1 = true
				}
			}
			// (... or on a certificate that itself has the D1 signature: an equivocating primary
			// can catch nodes on both sides with early commits - soak seed 721; every acceptance of
			// the two blocks must be one or the other, a short certificate of any other kind keeps
			// the fork a plain violation)
			sound = true
			for _, a := range o.s.accepts[idx] {
				if (a.hash == h || a.hash == prev) && !a.cert.ok() && !a.cert.knownD1() {
					sound = false
				}
			}
			if d1 && sound {
				class = "fork_via_unverified_early_commit"
			}
			o.s.Violate("C01", class,
				fmt.Sprintf("height %d: %s %s block %s but n%d accepted %s", idx, n, how, h, o.who[idx], prev), n.id)
		}
		o.nodesAt[idx]++
		if o.nodesAt[idx] >= 2 && o.s.hostileNow() {
			o.s.st.Exercised = true
		}
		return
	}
	o.decided[idx] = h
	o.who[idx] = n.id
	o.nodesAt[idx] = 1
}

func (o *OracleC01) OnOut(n *Node, st *Step, out *Out) {
	if out.Kind != OProcessBlock {
		return
	}
	// the certificate of EVERY library instance's acceptance is recorded (an amnesia node is
	// budgeted as faulty, but it runs the library: a block it accepts on unverified early
	// commits - known finding D1 - reaches honest nodes through ledger sync)
	o.s.recordAccept(n, &Block{Header: *out.Hdr})
	if !n.honest {
		return
	}
	o.s.st.Decided++
	o.check(n, out.Hdr.Idx, out.Hash, "was handed")
}

func (o *OracleC01) OnSyncBlock(n *Node, b *Block) {
	if !n.honest {
		return
	}
	// a synced block was decided by somebody: it must be the decided one if any honest node decided
	o.check(n, b.Idx, (&Block{Header: b.Header}).Hash(), "synced")
}

// hostileNow: a faulty participant exists or a partition/faction fault is active.
func (s *Sim) hostileNow() bool {
	if s.cutX || s.slowX > 0 {
		return true
	}
	for _, c := range s.cut {
		if c {
			return true
		}
	}
	for _, k := range s.sc.Fault {
		if k != FHonest {
			return true
		}
	}
	return false
}
