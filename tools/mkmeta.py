#!/usr/bin/env python3
"""usage: tools/mkmeta.py <id> <property> <author-note> <change> <needs> <caught_by> [checks_run]
writes /verif/seeded/<id>/meta.json (confirmation fields as produced by tools/intake.sh)"""
import json, os, sys
id_, prop, author, change, needs, caught = sys.argv[1:7]
run = sys.argv[7] if len(sys.argv) > 7 else "tools/intake.sh / tools/trymut.sh (VERIF_REPO scratch copy, quick tier, 40 s budget, 6 workers on a loaded machine)"
d = "/verif/seeded/" + id_
m = {"id": id_, "property": prop, "change": change, "needs_to_manifest": needs, "author": author,
     "confirmed": {"existing_suite_with_change": "pass", "demo_with_change": "FAIL", "demo_without_change": "pass",
                   "how": "tools/intake.sh in a fresh scratch copy of /repo HEAD"},
     "checks_run": run, "caught_by": caught,
     "files": sorted(f for f in os.listdir(d) if f != "meta.json")}
json.dump(m, open(d + "/meta.json", "w"), indent=1)
print("wrote", d + "/meta.json")
