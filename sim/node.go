package verifsim

import (
	"errors"
	"fmt"
	"strings"
	"time"

	"github.com/nspcc-dev/dbft"
	"go.uber.org/zap"
	"go.uber.org/zap/zapcore"
)

type Node struct {
	syncPolls int // ledger sync polls made so far (rotates the polled peer)

	echoLate []*Payload // own (pre)commits of the previous incarnation that may still come back
	ownSent []*Payload // everything this (amnesia) validator ever broadcast, all incarnations

	s      *Sim
	id     int
	ident  int
	brain  int
	kind   FaultKind
	honest bool
	priv   *PrivKey
	pub    *PubKey
	flagWO bool

	d   *dbft.DBFT[Hash]
	tm  *simTimer
	up  bool
	inc int // incarnation (bumped on every boot)

	ledger []*Block
	pool   map[Hash]*Tx

	skew       int64
	jump       int64
	stallUntil int64
	special    bool // pair runs: traffic to/from this node draws from SSpecial
	neverBoot  bool // pair runs: the special node is silent (never started)

	subscribed      bool
	madeReq         bool // this instance made (broadcast) a proposal itself: incarnation, height, view of the last one
	madeReqInc      int
	madeReqH        uint32
	madeReqV        byte
	txGen           uint64 // bumped by StopTxFlow when the application honours it: open transaction requests are forgotten
	hidePool        bool // the verified pool reads empty (the notified transaction was evicted)
	st              *Step
	crashing        bool
	crashAfterSends int
	resetPending    bool
	initTip         uint32 // ledger tip reported at the last Start/Reset
	initTipHash     Hash
	initTS          uint64
	amnesiaAt       map[uint32]bool // heights at which this node lost consensus state
	lastNow         int64
	decidedInInit   int
	log             *zap.Logger
	facts           *facts
	preBlockOK      bool
	lastBlockObj    *Block
	lastPreBlockObj *PreBlock
	accepted        bool // the application accepted a block since the last Start/Reset (harness record, independent of the library's own flag)
	scriptCrashSends int // scripts: the first incarnation crashes after this many recipients of its first broadcast
	lastProposal    *Header
	lastProposalView byte
	everHad         map[Hash]bool // transactions this node ever possessed (pool or supplied)
	crashInProcess  int
	fatal           bool
}

func (n *Node) String() string {
	if n.kind == FSplit {
		return fmt.Sprintf("n%d(id%d.b%d)", n.id, n.ident, n.brain)
	}
	return fmt.Sprintf("n%d(id%d)", n.id, n.ident)
}

// judged: per-instance message-discipline oracles skip split-brain instances,
// whose identity equivocates by construction (each brain receives its
// sibling's payloads under its own validator index).
func (n *Node) judged() bool { return n.kind != FSplit }

// stream maps a draw that concerns this node to the special stream in pair runs.
func (n *Node) stream(st Stream) Stream {
	if n.special {
		return SSpecial
	}
	return st
}

func (n *Node) tip() *Block { return n.ledger[len(n.ledger)-1] }

func (n *Node) valsPub(h uint32) []dbft.PublicKey {
	ids := n.s.sc.ValsAt(h)
	out := make([]dbft.PublicKey, len(ids))
	for i, id := range ids {
		out[i] = n.s.pubs[id]
	}
	return out
}

// clockNow is what Timer.Now() returns on this node.
func (n *Node) clockNow() time.Time {
	return time.Unix(0, n.s.sc.Epoch0+n.s.now+n.skew+n.jump)
}

// ---------------------------------------------------------------- timer

type simTimer struct {
	n        *Node
	h        uint32
	v        byte
	start    int64
	total    int64
	gen      uint64
	armed    bool
	consumed bool
	resets   int
	lastD    time.Duration
}

func (t *simTimer) Now() time.Time {
	tm := t.n.clockNow()
	if t.n.st != nil {
		t.n.out(Out{Kind: OClockRead, TS: uint64(tm.UnixNano())})
	}
	return tm
}
func (t *simTimer) Height() uint32      { return t.h }
func (t *simTimer) View() byte          { return t.v }
func (t *simTimer) C() <-chan time.Time { return nil }

func (t *simTimer) fireAt() int64 {
	s := t.n.s
	d := t.total
	if d < 0 {
		d = 0
	}
	if s.sc.EarlyTimer && d > 0 && s.tape.Chance(STimer, 1, 8) {
		d = d * s.tape.Range(STimer, 0, 9) / 10
		s.fault("early_timer")
	}
	return t.start + d
}

func (t *simTimer) Reset(h uint32, v byte, d time.Duration) {
	t.h, t.v = h, v
	t.start = t.n.s.now
	t.total = int64(d)
	t.lastD = d
	t.gen++
	t.armed = true
	t.consumed = false
	t.resets++
	t.n.out(Out{Kind: OTimerReset, H: h, V: v, D: d})
	t.n.s.push(&Event{At: t.fireAt(), Kind: EvTimer, Node: t.n.id, Gen: t.gen, Inc: t.n.inc})
}

func (t *simTimer) Extend(d time.Duration) {
	t.total += int64(d)
	t.n.out(Out{Kind: OTimerExtend, D: d})
	if t.total > t.n.s.now-t.start {
		t.gen++
		t.armed = true
		t.consumed = false
		t.n.s.push(&Event{At: t.fireAt(), Kind: EvTimer, Node: t.n.id, Gen: t.gen, Inc: t.n.inc})
	}
}

// ---------------------------------------------------------------- logger (probe counters, never reads a clock)

type probeCore struct{ n *Node }

func (c probeCore) Enabled(zapcore.Level) bool        { return true }
func (c probeCore) With([]zapcore.Field) zapcore.Core { return c }
func (c probeCore) Check(e zapcore.Entry, ce *zapcore.CheckedEntry) *zapcore.CheckedEntry {
	return ce.AddCore(e, c)
}
func (c probeCore) Write(e zapcore.Entry, _ []zapcore.Field) error {
	s := c.n.s
	msg := e.Message
	if i := strings.Index(msg, " cv="); i > 0 {
		msg = msg[:i]
	}
	s.st.Probe["log:"+msg]++
	if e.Level >= zapcore.DPanicLevel {
		s.st.Probe["loglevel:"+e.Level.String()]++
	}
	if s.record && e.Level >= zapcore.InfoLevel {
		s.tracef("    %s log[%s] %s", c.n, e.Level.CapitalString(), e.Message)
	}
	return nil
}
func (c probeCore) Sync() error { return nil }

type fatalPanic struct{ msg string }

type fatalHook struct{}

func (fatalHook) OnWrite(e *zapcore.CheckedEntry, _ []zapcore.Field) {
	panic(fatalPanic{e.Message})
}

// ---------------------------------------------------------------- boot / calls

func (n *Node) boot() {
	s := n.s
	sc := s.sc
	n.inc++
	n.up = true
	n.crashing = false
	n.resetPending = false // a Reset scheduled by the previous incarnation died with it
	if n.inc > 1 && n.ident < len(sc.WOAfterRestart) && sc.WOAfterRestart[n.ident] {
		n.flagWO = true
		s.fault("restarted_in_watch_only_mode")
	}
	n.crashAfterSends = -1
	if n.scriptCrashSends > 0 && n.inc == 1 {
		n.crashAfterSends = n.scriptCrashSends
	}
	n.subscribed = false
	n.tm = &simTimer{n: n}
	n.facts = newFacts()
	opts := []zap.Option{zap.WithFatalHook(fatalHook{})}
	if sc.DevLogger {
		opts = append(opts, zap.Development())
	}
	n.log = zap.New(probeCore{n}, opts...)
	d, err := dbft.New[Hash](n.options()...)
	if err != nil {
		panic("harness: dbft.New failed: " + err.Error())
	}
	n.d = d
	ts := n.tip().TS
	s.tracef("%s BOOT inc=%d tip=%d", n, n.inc, n.tip().Idx)
	n.call(&Step{Op: OpStart, Arg: ts}, func() { n.d.Start(ts) })
	if n.inc > 1 && n.kind == FAmnesia && !s.manual {
		n.scheduleEcho()
	}
}

func (n *Node) crash() {
	n.up = false
	n.d = nil
	n.tm = nil
	n.st = nil
	if n.amnesiaAt == nil {
		n.amnesiaAt = map[uint32]bool{}
	}
	n.amnesiaAt[n.tip().Idx+1] = true
	n.s.tracef("%s CRASH", n)
}

// callProbe performs an injected call that is not part of the organic run: no
// crash points, no delivery bookkeeping, but the same panic capture and oracles.
func (n *Node) callProbe(st *Step, fn func()) {
	st.Probe = true
	n.call(st, fn)
}

// call performs one API call into the node's library instance.
func (n *Node) call(st *Step, fn func()) {
	s := n.s
	st.Node, st.Inc, st.Seq, st.At = n.id, n.inc, s.seq, s.now
	if st.Op != OpStart {
		// "decided" is the harness's own record (the application's ProcessBlock returned success
		// since the last Start/Reset), not the library's flag
		st.PreBI, st.PreV, st.PreDec = n.d.BlockIndex, n.d.ViewNumber, n.accepted
	}
	s.st.Calls++
	// amnesia crash points: before the call, inside a broadcast, inside ProcessBlock
	if n.kind == FAmnesia && st.Op != OpStart && s.sc.CrashPM > 0 && !st.Probe && !s.postGST() && s.tape.Chance(SFault, s.sc.CrashPM, 1000) {
		switch s.tape.Draw(SFault, 3) {
		case 0:
			s.fault("crash_between_calls")
			n.crash()
			n.scheduleRestart()
			return
		case 1:
			n.crashAfterSends = int(s.tape.Draw(SFault, uint64(len(s.nodes))))
		case 2:
			n.crashInProcess = 1 + int(s.tape.Draw(SFault, 2))
		}
	}
	if s.record {
		s.tracef("%s %s", n, st.describe())
	}
	if st.Op == OpReceive && st.P != nil && !st.Probe {
		n.noteDelivery(st.P)
	}
	if st.Op == OpStart || st.Op == OpReset {
		n.initTip, n.initTipHash, n.initTS = n.tip().Idx, n.tip().Hash(), st.Arg
		n.preBlockOK = false
		n.accepted = false
		n.facts.anyEarly = false
		n.decidedInInit = 0
		n.facts.gc(n.initTip + 1)
	}
	for _, o := range s.oracles {
		o.BeforeCall(n, st)
	}
	n.st = st
	s.cur = n
	func() {
		defer func() {
			if r := recover(); r != nil {
				if fp, ok := r.(fatalPanic); ok {
					s.probe("logger_fatal:" + fp.msg)
					st.Panic = nil
					n.fatal = true
					return
				}
				st.Panic = r
				s.st.Panics++
			}
		}()
		fn()
	}()
	n.st = nil
	s.cur = nil
	if n.d != nil {
		st.PostBI, st.PostV = n.d.BlockIndex, n.d.ViewNumber
	}
	n.foldStep(st)
	if st.Panic != nil {
		s.tracef("%s PANIC: %v", n, st.Panic)
	}
	for _, o := range s.oracles {
		if s.viol != nil {
			break
		}
		o.AfterCall(n, st)
	}
	if st.Panic != nil && s.viol == nil && len(s.oracles) > 0 {
		// a panic inside the library is a failure of whatever property is being judged (the
		// node stops deciding, answering, keeping its timer ...); C11 and C16 report it
		// themselves, the other families report it here instead of letting the node quietly
		// disappear from the set of live validators
		s.Violate(s.oracles[0].Name(), "library_panic", fmt.Sprintf("%s: %s panicked: %v", n, st.describe(), st.Panic), n.id)
	}
	if st.Panic != nil || n.fatal {
		// the process would have died: treat as a crash without restart
		n.fatal = false
		n.up = false
		s.fault("node_died")
		return
	}
	if n.crashing {
		n.crash()
		n.scheduleRestart()
		return
	}
	n.crashAfterSends = -1
	n.crashInProcess = 0
	if len(n.echoLate) > 0 && st.Op != OpStart && st.PostBI == st.PreBI && st.PostV > st.PreV && !s.postGST() {
		for _, p := range n.echoLate {
			if p.H == st.PostBI && s.tape.Chance(SFault, 1, 2) {
				s.fault("echo_of_own_commit_after_view_change")
				s.after(s.tape.Range(SFault, 0, 4)*s.sc.LatBase, &Event{Kind: EvDeliver, Node: n.id, From: n.id, P: p})
			}
		}
		n.echoLate = n.echoLate[:0]
	}
	if s.sc.StallPM > 0 && !s.postGST() && s.tape.Chance(n.stream(SFault), s.sc.StallPM, 1000) {
		n.stallUntil = s.now + s.tape.Range(n.stream(SFault), 1, 12)*int64(s.sc.TPB)/4
		s.fault("stall")
	}
	s.sampleState(n)
}

func (n *Node) scheduleRestart() {
	s := n.s
	if s.tape.Chance(SFault, 1, 5) {
		// crash-stop: this (budgeted faulty) validator took part, created in-flight state and
		// stays silent from now on
		s.fault("crash_stop")
		return
	}
	d := s.tape.Range(SFault, 0, 12) * int64(s.sc.TPB) / 4
	if s.sc.LongRestart && s.tape.Chance(SFault, 1, 2) {
		d *= 3
	}
	s.after(d, &Event{Kind: EvRestart, Node: n.id})
}

// scheduleEcho models gossip: what a validator broadcast before it lost its state is still
// being relayed and reaches the restarted validator itself like any other payload.
func (n *Node) scheduleEcho() {
	s := n.s
	h := n.tip().Idx + 1
	var own []*Payload
	for _, p := range n.ownSent {
		if p.H == h {
			own = append(own, p)
		}
	}
	if len(own) == 0 || !s.tape.Chance(SFault, 1, 2) {
		return
	}
	// its (pre)commit may also come back later, right after the node was taken to a higher view
	n.echoLate = n.echoLate[:0]
	for _, p := range own {
		if p.T == dbft.CommitType || p.T == dbft.PreCommitType {
			n.echoLate = append(n.echoLate, p)
		}
	}
	if len(own) > 8 {
		own = own[len(own)-8:]
	}
	for _, p := range own {
		if s.tape.Chance(SFault, 1, 3) {
			continue
		}
		d := s.tape.Range(SFault, 0, 16) * int64(s.sc.TPB) / 4
		if s.sc.GST > 0 && s.now+d >= s.sc.GST {
			continue
		}
		s.fault("echo_of_own_payload_after_restart")
		s.after(d, &Event{Kind: EvDeliver, Node: n.id, From: n.id, P: p})
	}
}

func (st *Step) describe() string {
	switch st.Op {
	case OpReceive:
		return "OnReceive " + st.P.String()
	case OpTimeout:
		return fmt.Sprintf("OnTimeout h=%d v=%d", st.TH, st.TV)
	case OpTx:
		return fmt.Sprintf("OnTransaction tx%d(%s)", st.Tx.ID, st.Tx.Hash())
	case OpStart, OpReset:
		return fmt.Sprintf("%s ts=%d", opNames[st.Op], st.Arg)
	}
	return opNames[st.Op]
}

func (n *Node) out(o Out) {
	st := n.st
	if st == nil {
		return
	}
	if n.d != nil {
		o.BI, o.VN = n.d.BlockIndex, n.d.ViewNumber
	}
	st.Outs = append(st.Outs, o)
	op := &st.Outs[len(st.Outs)-1]
	s := n.s
	if s.record {
		s.tracef("    %s -> %s", n, op.describe())
	}
	for _, or := range s.oracles {
		or.OnOut(n, st, op)
	}
}

func (o *Out) describe() string {
	switch o.Kind {
	case OBroadcast:
		return "Broadcast " + o.P.String()
	case OTimerReset:
		return fmt.Sprintf("Timer.Reset h=%d v=%d d=%v", o.H, o.V, o.D)
	case OTimerExtend:
		return fmt.Sprintf("Timer.Extend d=%v", o.D)
	case OProcessBlock, OProcessPreBlock, OVerifyBlock, OVerifyPreBlock, ONewBlock, ONewPreBlock, OSign, OSetData:
		if o.Hdr != nil {
			return fmt.Sprintf("%s idx=%d ts=%d ntx=%d #%s ok=%v", outNames[o.Kind], o.Hdr.Idx, o.Hdr.TS, len(o.Hdr.TxHashes), o.Hash, o.OK)
		}
	case ORequestTx, OGetVerified, ONewPrepReq:
		return fmt.Sprintf("%s %v", outNames[o.Kind], o.Hashes)
	}
	return outNames[o.Kind]
}

func (n *Node) foldStep(st *Step) {
	s := n.s
	var ph uint64
	if st.P != nil {
		ph = h64(st.P.Hash())
	}
	if st.Tx != nil {
		ph = st.Tx.ID
	}
	s.foldTrace(uint64(st.Node), uint64(st.Op), uint64(st.At), ph, uint64(st.TH)<<8|uint64(st.TV), uint64(st.PostBI)<<8|uint64(st.PostV))
	for i := range st.Outs {
		o := &st.Outs[i]
		var x uint64
		if o.P != nil {
			x = h64(o.P.Hash())
		}
		s.foldTrace(uint64(o.Kind), x, uint64(o.D), uint64(o.H)<<8|uint64(o.V), h64(o.Hash), o.TS, uint64(len(o.Hashes)))
	}
	if st.Op == OpReceive {
		s.st.SchedSig = mix64(s.st.SchedSig, mix64(uint64(st.Node), ph))
	}
}

// sampleState records an abstract node state for the reach measure.
func (s *Sim) sampleState(n *Node) {
	if n.d == nil {
		return
	}
	d := n.d
	cnt := func(l []dbft.ConsensusPayload[Hash]) uint64 {
		c := 0
		for _, p := range l {
			if p != nil {
				c++
			}
		}
		m := d.M()
		switch {
		case c == 0:
			return 0
		case c < m-1:
			return 1
		case c == m-1:
			return 2
		case c == m:
			return 3
		}
		return 4
	}
	var role uint64
	switch {
	case d.MyIndex < 0:
		role = 0
	case d.IsPrimary():
		role = 1
	default:
		role = 2
	}
	v := uint64(d.ViewNumber)
	if v > 3 {
		v = 3
	}
	var flags uint64
	for i, b := range []bool{d.RequestSentOrReceived(), d.ResponseSent(), d.CommitSent(), d.PreCommitSent(), d.BlockSent(), d.ViewChanging(), len(d.MissingTransactions) > 0} {
		if b {
			flags |= 1 << uint(i)
		}
	}
	sig := role | v<<2 | flags<<4 | cnt(d.PreparationPayloads)<<12 | cnt(d.CommitPayloads)<<15 | cnt(d.ChangeViewPayloads)<<18 | cnt(d.PreCommitPayloads)<<21 | uint64(d.N())<<24
	s.st.StateSigs[sig] = struct{}{}
}

// ---------------------------------------------------------------- application callbacks

var errProc = errors.New("application refuses the block for now")

func (n *Node) options() []func(*dbft.Config[Hash]) {
	s := n.s
	sc := s.sc
	opts := []func(*dbft.Config[Hash]){
		dbft.WithLogger[Hash](n.log),
		dbft.WithTimer[Hash](n.tm),
		dbft.WithTimePerBlock[Hash](func() time.Duration { return sc.TPBAt(n.tip().Idx + 1) }),
		dbft.WithTimestampIncrement[Hash](sc.TSInc),
		dbft.WithGetKeyPair[Hash](func(pubs []dbft.PublicKey) (int, dbft.PrivateKey, dbft.PublicKey) {
			for i, p := range pubs {
				if pk, ok := p.(*PubKey); ok && pk.ID == n.ident {
					return i, n.priv, n.pub
				}
			}
			return -1, nil, nil
		}),
		dbft.WithCurrentHeight[Hash](func() uint32 { return n.tip().Idx }),
		dbft.WithCurrentBlockHash[Hash](func() Hash { return n.tip().Hash() }),
		dbft.WithGetValidators[Hash](func(...dbft.Transaction[Hash]) []dbft.PublicKey { return n.valsPub(n.tip().Idx + 1) }),
		dbft.WithWatchOnly[Hash](func() bool { return n.flagWO }),
		dbft.WithGetVerified[Hash](n.cbGetVerified),
		dbft.WithGetTx[Hash](func(h Hash) dbft.Transaction[Hash] {
			if tx, ok := n.pool[h]; ok {
				return tx
			}
			return nil
		}),
		dbft.WithRequestTx[Hash](n.cbRequestTx),
		dbft.WithStopTxFlow[Hash](func() {
			n.out(Out{Kind: OStopTxFlow})
			if sc.HonourStop {
				// "the process no longer needs any transactions": an application that takes this
				// at its word forgets the requests that are still open
				n.txGen++
			}
		}),
		dbft.WithVerifyBlock[Hash](func(b dbft.Block[Hash]) bool {
			bb := b.(*Block)
			ok := n.verifyTxs(bb.txs)
			n.facts.verdict[contentKey(bb.Idx, bb.Prev, bb.TS, bb.Nonce, bb.TxHashes)] = ok
			n.out(Out{Kind: OVerifyBlock, Hdr: &bb.Header, Hash: bb.Hash(), OK: ok})
			return ok
		}),
		dbft.WithBroadcast[Hash](n.cbBroadcast),
		dbft.WithProcessBlock[Hash](n.cbProcessBlock),
		dbft.WithNewBlockFromContext[Hash](n.cbNewBlock),
		dbft.WithNewConsensusPayload[Hash](func(c *dbft.Context[Hash], t dbft.MessageType, msg any) dbft.ConsensusPayload[Hash] {
			return &Payload{T: t, H: c.BlockIndex, V: c.ViewNumber, Idx: uint16(c.MyIndex), Body: msg}
		}),
		dbft.WithNewPrepareRequest[Hash](func(ts uint64, nonce uint64, hs []Hash) dbft.PrepareRequest[Hash] {
			cp := make([]Hash, len(hs))
			copy(cp, hs)
			n.out(Out{Kind: ONewPrepReq, TS: ts, Nonce: nonce, Hashes: cp})
			return &PrepReq{TS: ts, Nnc: nonce, Hashes: cp}
		}),
		dbft.WithNewPrepareResponse[Hash](func(h Hash) dbft.PrepareResponse[Hash] { return &PrepResp{Prep: h} }),
		dbft.WithNewChangeView[Hash](func(nv byte, r dbft.ChangeViewReason, ts uint64) dbft.ChangeView {
			return &ChView{NewView: nv, Rsn: r, TS: ts}
		}),
		dbft.WithNewCommit[Hash](func(sig []byte) dbft.Commit { return &CommitBody{Sig: append([]byte(nil), sig...)} }),
		dbft.WithNewRecoveryRequest[Hash](func(ts uint64) dbft.RecoveryRequest { return &RecReq{TS: ts} }),
		dbft.WithNewRecoveryMessage[Hash](func() dbft.RecoveryMessage[Hash] { return &RecMsg{} }),
		dbft.WithVerifyCommit[Hash](func(p dbft.ConsensusPayload[Hash]) error {
			// called by the library right after it stored a current-view commit:
			// record whether the node can check it against a header at this moment
			d := n.d
			can := d.RequestSentOrReceived() && (!sc.amevAt(d.BlockIndex) || d.Header() != nil || n.preBlockOK)
			if !can {
				n.facts.early[p.Hash()] = true
				n.facts.anyEarly = true
				s.probe("early_commit_before_header")
			}
			if sc.VerdictPM > 0 && s.tape.Chance(n.stream(SApp), sc.VerdictPM, 1000) {
				return errProc
			}
			return nil
		}),
		dbft.WithVerifyPrepareRequest[Hash](func(p dbft.ConsensusPayload[Hash]) error {
			if sc.VerdictPM > 0 && s.tape.Chance(n.stream(SApp), sc.VerdictPM, 1000) {
				n.facts.policy[p.Hash()] = false
				return errProc
			}
			n.facts.policy[p.Hash()] = true
			return nil
		}),
		dbft.WithVerifyPrepareResponse[Hash](func(p dbft.ConsensusPayload[Hash]) error {
			if sc.VerdictPM > 0 && s.tape.Chance(n.stream(SApp), sc.VerdictPM, 1000) {
				n.facts.policy[p.Hash()] = false
				return errProc
			}
			n.facts.policy[p.Hash()] = true
			return nil
		}),
	}
	if sc.AMEV >= 0 {
		opts = append(opts,
			dbft.WithAntiMEVExtensionEnablingHeight[Hash](sc.AMEV),
			dbft.WithNewPreBlockFromContext[Hash](n.cbNewPreBlock),
			dbft.WithProcessPreBlock[Hash](n.cbProcessPreBlock),
			dbft.WithNewPreCommit[Hash](func(d []byte) dbft.PreCommit { return &PreCommitBody{D: append([]byte(nil), d...)} }),
			dbft.WithVerifyPreCommit[Hash](func(p dbft.ConsensusPayload[Hash]) error {
				if !n.d.RequestSentOrReceived() {
					n.facts.early[p.Hash()] = true
					n.facts.anyEarly = true
					s.probe("early_precommit_before_preheader")
				}
				if sc.VerdictPM > 0 && s.tape.Chance(n.stream(SApp), sc.VerdictPM, 1000) {
					return errProc
				}
				return nil
			}),
			dbft.WithVerifyPreBlock[Hash](func(b dbft.PreBlock[Hash]) bool {
				bb := b.(*PreBlock)
				ok := n.verifyTxs(bb.txs)
				n.facts.verdict[contentKey(bb.Idx, bb.Prev, bb.TS, bb.Nonce, bb.TxHashes)] = ok
				n.out(Out{Kind: OVerifyPreBlock, Hdr: &bb.Header, Hash: bb.preHash(), OK: ok})
				return ok
			}),
		)
	}
	if sc.MaxTPB > 0 {
		opts = append(opts,
			dbft.WithMaxTimePerBlock[Hash](func() time.Duration { return sc.MaxTPBAt(n.tip().Idx + 1) }),
			dbft.WithSubscribeForTxs[Hash](func() {
				n.subscribed = true
				n.out(Out{Kind: OSubscribe})
				if sc.WOFlipIdent-1 == n.ident && !n.flagWO && s.tape.Chance(n.stream(SFault), 1, 2) {
					// the operator sets the flag right while the node waits for transactions
					s.after(1, &Event{Kind: EvCustom, Fn: func() {
						if !n.flagWO {
							n.flagWO = true
							s.fault("watch_only_flag_set_while_subscribed")
							s.tracef("%s WATCH-ONLY FLAG SET", n)
						}
					}})
				}
			}),
		)
	}
	return opts
}

func (n *Node) verifyTxs(txs []dbft.Transaction[Hash]) bool {
	ok := true
	for _, t := range txs {
		if tx, isTx := t.(*Tx); isTx && tx != nil && tx.Invalid {
			ok = false
			// a mempool drops a transaction once block verification has rejected it
			delete(n.pool, tx.Hash())
		}
	}
	return ok
}

func (n *Node) cbGetVerified() []dbft.Transaction[Hash] {
	max := n.s.sc.MaxTxPerBlock
	out := make([]dbft.Transaction[Hash], 0, max)
	var hs []Hash
	hide := n.hidePool
	if sc := n.s.sc; sc.EvictPM > 0 && n.st != nil && !hide {
		// the verified pool promises no repeatable reads: what one read returned may be gone
		// (replaced, expired) at the next read inside the same library call
		for _, o := range n.st.Outs {
			if o.Kind == OGetVerified && len(o.Hashes) > 0 {
				hide = true
				n.s.fault("pool_emptied_between_two_reads_in_one_call")
				if n.st.Op == OpNewTx {
					// inside a notification this is the 'notified transaction is gone again'
					// case: a prompt empty proposal and going on waiting are both acceptable
					n.st.Evicted = true
				}
				break
			}
		}
	}
	if max > 0 && !hide {
		for _, tx := range sortedHashes(n.pool) {
			if tx.Invalid && !n.s.sc.PoolHoldsInvalid {
				continue // the verified pool normally holds no invalid transactions
			}
			out = append(out, tx)
			hs = append(hs, tx.Hash())
			if len(out) >= max {
				break
			}
		}
	}
	n.out(Out{Kind: OGetVerified, Hashes: hs})
	return out
}

func (n *Node) cbRequestTx(hs ...Hash) {
	s := n.s
	cp := append([]Hash(nil), hs...) // the library reuses and mutates its slice
	n.out(Out{Kind: ORequestTx, Hashes: cp})
	for _, h := range cp {
		tx, ok := s.allTx[h]
		if !ok {
			s.fault("requested_tx_unknown")
			continue
		}
		var d int64
		if s.sc.Family == "sync" || s.postGST() {
			// fault-free application: every requested transaction is supplied within delta
			d = 1 + s.tape.Range(n.stream(SApp), 0, s.sc.Delta-1)
		} else {
			if s.tape.Chance(n.stream(SApp), 1, 12) {
				s.fault("requested_tx_never_supplied")
				continue
			}
			d = s.sc.LatBase*(1+4*s.sc.SupplySlow) + s.tape.Range(n.stream(SApp), 0, 16)*s.sc.LatBase/2
		}
		s.after(d, &Event{Kind: EvTxSupply, Node: n.id, Inc: n.inc, Tx: tx, Gen: n.txGen})
	}
}

func (n *Node) cbBroadcast(m dbft.ConsensusPayload[Hash]) {
	p := m.(*Payload)
	p.sign(n.priv)
	n.facts.addDelivered(p) // own payloads count as held by the node
	n.out(Out{Kind: OBroadcast, P: p})
	if p.T == dbft.PrepareRequestType {
		n.madeReq, n.madeReqInc, n.madeReqH, n.madeReqV = true, n.inc, p.H, p.V
	}
	if n.crashing {
		return // the process died earlier in this call: this payload never left the node
	}
	if n.kind == FAmnesia {
		n.ownSent = append(n.ownSent, p) // (only what really went out can be echoed back later)
	}
	n.s.send(n, p)
}

func (n *Node) cbNewBlock(c *dbft.Context[Hash]) dbft.Block[Hash] {
	hs := make([]Hash, len(c.TransactionHashes))
	copy(hs, c.TransactionHashes)
	b := &Block{Header: Header{Idx: c.BlockIndex, Prev: c.PrevHash, TS: c.Timestamp, Nonce: c.Nonce, TxHashes: hs}, owner: n}
	if n.s.sc.amevAt(c.BlockIndex) {
		// the final block is a function of the processed pre-block (as in the
		// reference NewAMEVBlock): its transactions are the pre-block's
		b.Final = true
		if pb, ok := c.PreBlock().(*PreBlock); ok && pb != nil {
			b.txs = append([]dbft.Transaction[Hash](nil), pb.txs...)
			b.fromPre = true
		}
	}
	n.out(Out{Kind: ONewBlock, Hdr: &b.Header, Hash: b.Hash()})
	return b
}

func (n *Node) cbNewPreBlock(c *dbft.Context[Hash]) dbft.PreBlock[Hash] {
	hs := make([]Hash, len(c.TransactionHashes))
	copy(hs, c.TransactionHashes)
	b := &PreBlock{Header: Header{Idx: c.BlockIndex, Prev: c.PrevHash, TS: c.Timestamp, Nonce: c.Nonce, TxHashes: hs}, owner: n}
	n.out(Out{Kind: ONewPreBlock, Hdr: &b.Header, Hash: b.preHash()})
	return b
}

func (n *Node) noteSign(b *Block)       { n.out(Out{Kind: OSign, Hdr: &b.Header, Hash: b.Hash()}) }
func (n *Node) noteSetData(b *PreBlock) { n.out(Out{Kind: OSetData, Hdr: &b.Header, Hash: b.preHash()}) }

func (n *Node) cbProcessPreBlock(b dbft.PreBlock[Hash]) error {
	s := n.s
	bb := b.(*PreBlock)
	n.lastPreBlockObj = bb
	fail := s.sc.ProcErrPM > 0 && s.tape.Chance(n.stream(SApp), s.sc.ProcErrPM, 1000)
	n.out(Out{Kind: OProcessPreBlock, Hdr: &bb.Header, Hash: bb.preHash(), OK: !fail})
	if fail {
		s.fault("process_preblock_error")
		return errProc
	}
	n.preBlockOK = true
	return nil
}

func (n *Node) cbProcessBlock(b dbft.Block[Hash]) error {
	s := n.s
	bb := b.(*Block)
	n.lastBlockObj = bb
	fail := false
	if s.sc.amevAt(bb.Idx) && s.sc.ProcErrPM > 0 && s.tape.Chance(n.stream(SApp), s.sc.ProcErrPM, 1000) {
		fail = true
	}
	if n.crashInProcess == 1 { // crash before the block is persisted
		n.crashing = true
		s.fault("crash_in_processblock_before_persist")
		n.out(Out{Kind: OProcessBlock, Hdr: &bb.Header, Hash: bb.Hash(), OK: false})
		return nil
	}
	n.out(Out{Kind: OProcessBlock, Hdr: &bb.Header, Hash: bb.Hash(), OK: !fail})
	if fail {
		s.fault("process_block_error")
		return errProc
	}
	n.accepted = true
	n.appendBlock(bb)
	if n.crashInProcess == 2 { // crash right after the block is persisted
		n.crashing = true
		s.fault("crash_in_processblock_after_persist")
		return nil
	}
	n.scheduleReset()
	return nil
}

func (n *Node) appendBlock(b *Block) bool {
	if b.Idx != n.tip().Idx+1 {
		return false
	}
	cp := &Block{Header: b.Header.clone(), txs: b.txs}
	n.ledger = append(n.ledger, cp)
	for _, h := range b.TxHashes {
		delete(n.pool, h)
	}
	if n.honest && !n.special && cp.Idx > n.s.st.MaxHeight {
		n.s.st.MaxHeight = cp.Idx
		if n.s.heightFn != nil {
			n.s.heightFn(cp.Idx)
		}
	}
	return true
}

func (n *Node) scheduleReset() {
	s := n.s
	if n.resetPending {
		return
	}
	n.resetPending = true
	st := SApp
	if n.special {
		st = SSpecial
	}
	var d int64
	nh := n.tip().Idx + 1
	if s.sc.SlowNode > 0 && n.ident == s.sc.SlowNode-1 && n.tip().Idx < s.st.MaxHeight {
		// the slow application is behind the others already: it catches up at once, so that
		// the lag of one slow Reset never adds up to the next one (and never reaches a height
		// it has to propose at)
		d = 0
	} else if idx := s.sc.IndexAt(nh, n.ident); s.sc.SlowNode > 0 && n.ident == s.sc.SlowNode-1 && idx != primaryOf(nh, 0, len(s.sc.ValsAt(nh))) && s.sc.IndexAt(nh+1, n.ident) != primaryOf(nh+1, 0, len(s.sc.ValsAt(nh+1))) && s.sc.IndexAt(nh+2, n.ident) != primaryOf(nh+2, 0, len(s.sc.ValsAt(nh+2))) {
		// a slow application, but never the one that has to propose next: a late
		// proposal is a fault of the application, not a matter of message order
		d = s.tape.Range(st, 0, 12) * int64(s.sc.TPB) / 8
		if d > 0 {
			s.fault("slow_reset")
		}
	} else if s.sc.ResetDelay > 0 {
		d = s.tape.Range(st, 0, 8) * s.sc.ResetDelay / 8
		if d > 0 {
			s.fault("slow_reset")
		}
	}
	s.after(d, &Event{Kind: EvAppReset, Node: n.id, Inc: n.inc})
}

func (n *Node) appReset() {
	n.resetPending = false
	ts := n.tip().TS
	n.call(&Step{Op: OpReset, Arg: ts}, func() { n.d.Reset(ts) })
}

func (n *Node) syncApply(blks []*Block) {
	added := 0
	for _, b := range blks {
		if n.appendBlock(b) {
			added++
			for _, o := range n.s.oracles {
				if so, ok := o.(interface{ OnSyncBlock(*Node, *Block) }); ok {
					so.OnSyncBlock(n, b)
				}
			}
		}
	}
	if added > 0 {
		n.s.fault("ledger_sync_blocks")
		if added > 1 {
			n.s.fault("ledger_sync_skipped_heights")
		}
		n.scheduleReset()
	}
}

func (n *Node) inChain(h Hash) bool {
	for _, b := range n.ledger {
		for _, x := range b.TxHashes {
			if x == h {
				return true
			}
		}
	}
	return false
}

func (n *Node) txArrive(tx *Tx) {
	if n.s.deadTx[tx.Hash()] {
		return
	}
	// a transaction already in the chain never re-enters the pool
	if n.inChain(tx.Hash()) {
		return
	}
	if _, ok := n.pool[tx.Hash()]; ok {
		return
	}
	n.pool[tx.Hash()] = tx
	n.everHad[tx.Hash()] = true
	if n.subscribed && n.d != nil {
		n.subscribed = false
		st := &Step{Op: OpNewTx}
		first := true // nobody else has seen the transaction yet (so nobody can have proposed it)
		for _, m := range n.s.nodes {
			if m != n && m.everHad[tx.Hash()] {
				first = false
			}
		}
		if sc := n.s.sc; sc.EvictPM > 0 && len(n.pool) == 1 && (n.d.IsPrimary() || first) && n.d.VerifState().TxSubscriptionOn && n.s.tape.Chance(n.stream(SApp), sc.EvictPM, 1000) {
			// the pool notifies, and the transaction is gone (replaced, expired, conflicting)
			// by the time the library asks for the verified ones
			n.s.fault("notified_transaction_evicted")
			st.Evicted = true
			n.hidePool = true
		}
		n.call(st, func() { n.d.OnNewTransaction() })
		if st.Evicted {
			// ... gone everywhere (the network stays fault-free: all pools agree)
			n.hidePool = false
			n.s.deadTx[tx.Hash()] = true
			for _, m := range n.s.nodes {
				delete(m.pool, tx.Hash())
			}
		}
	}
}
