package verifsim

import (
	"fmt"
	"os"
	"time"
)

type FaultKind uint8

const (
	FHonest  FaultKind = iota
	FSilent            // never boots
	FAmnesia           // honest code, crashes and restarts with empty consensus state
	FSplit             // several honest-code instances under one identity (equivocation)
	FByz               // scripted adversary only (no library instance)
)

func (k FaultKind) String() string {
	return [...]string{"honest", "silent", "amnesia", "split", "byz"}[k]
}

type Epoch struct {
	From uint32 // first height decided by this validator list
	Vals []int  // identities, in validator-index order
}

// Scenario is everything about a run that is fixed before the first event.
// It is drawn from the SScen stream, so it is part of the tape.
type Scenario struct {
	Family  string
	NIdent  int // validator candidate identities 0..NIdent-1
	NObs    int // observers (identities NIdent..NIdent+NObs-1), never in a validator list
	Epochs  []Epoch
	Start   uint32 // ledger tip at t=0
	Heights int    // heights to decide before the run is complete
	AMEV    int64  // -1 off, else enabling height
	TPB     time.Duration
	TPB2    time.Duration // time per block returned by the callback from height TPB2From on (0: constant)
	TPB2From uint32
	HonourStop bool // sync family: the application forgets its open transaction requests when StopTxFlow is called
	TPBAlt   bool // from TPB2From on the block time alternates between TPB2 and TPB with every height
	MaxTPB  time.Duration // 0: dynamic block time off
	TSInc   uint64
	Fault   []FaultKind // per identity
	FlagWO  []bool      // per identity: WatchOnly() callback returns true
	WOAfterRestart []bool // per identity: the operator restarts this validator in watch-only mode (flag set from its second incarnation on)
	Brains  int         // instances per FSplit identity

	// network
	LatBase   int64 // ns
	LatJitter int64 // ns
	DropPM    uint64 // per-mille
	DupPM     uint64
	HeavyTail bool
	GST       int64 // ns; <0: never stabilises (safety family); 0: synchronous from the start
	Delta     int64 // post-GST latency bound

	// faults (rates per mille / switches)
	Partitions  bool
	Factions    bool
	CrashPM     uint64 // amnesia crash chance per API call of an FAmnesia node
	StallPM     uint64
	EarlyTimer  bool
	EvictPM     uint64 // dyn family: per mille of notified transactions that have left the pool again when the library looks (0: off)
	HugePool    int   // clock family: this many transactions sit in every pool from the start (0: off)
	WOFlipIdent int   // identity+1 of a validator whose watch-only flag is set while it runs (0: none)
	WOFlipAt    int64 // ... at this instant
	FastIdent   int  // identity+1 of an amnesia validator whose inbound links are the fastest (0: none)
	LongRestart bool // restarts may take up to 9 block times instead of 3
	TriggerCut  bool // event-triggered faults: isolate a node / cut the factions at the moment the first (pre)commit of a height or the first change-view of a view is broadcast
	ClockSkew   bool
	ClockJumps  bool
	AdvPM       uint64 // adversary action chance per event
	ResetDelay  int64  // max extra delay of the application's Reset after a block, ns
	SlowReset   bool
	ProcErrPM   uint64 // ProcessBlock/ProcessPreBlock failure chance (anti-MEV only)
	MapOrder    int    // 0 sorted, 1 reversed, 2 random
	TxRate      int    // workload: 0 none, else mean txs per block interval
	TxGossipMax int64  // ns
	TxMissing   bool   // mempools differ / proposals may reference unknown txs
	InvalidTxPM uint64
	MaxTxPerBlock int
	SyncEvery   int64 // ledger sync poll period, ns (0 off)
	Epoch0      int64 // wall-clock epoch of simulated time zero, ns since 1970
	DevLogger   bool  // zap development mode (DPanic panics)
	ShiftNs     int64 // pair runs: epoch offset of the second run
	TxArrival   int   // C16 workload pattern
	Sub         int   // sub-scenario selector (C09)
	VerdictPM   uint64 // fuzz: chance that a Verify* callback rejects
	SlowNode    int   // 1+identity whose application is slow to call Reset (up to 1.5 T)
	PoorNode    int   // 1+identity whose mempool misses most gossiped transactions (0: none)
	SupplySlow  int64 // extra tx supply latency in multiples of the base latency
	PoolHoldsInvalid bool // GetVerified may return transactions the block verification rejects

	MaxEvents int
	MaxTime   int64
	MaxViews  int
}

func (sc *Scenario) ValsAt(h uint32) []int {
	var v []int
	for i := range sc.Epochs {
		if sc.Epochs[i].From <= h {
			v = sc.Epochs[i].Vals
		}
	}
	if v == nil {
		v = sc.Epochs[0].Vals
	}
	return v
}

func (sc *Scenario) IndexAt(h uint32, ident int) int {
	for i, id := range sc.ValsAt(h) {
		if id == ident {
			return i
		}
	}
	return -1
}

func fOf(n int) int { return (n - 1) / 3 }
func mOf(n int) int { return n - fOf(n) }

func primaryOf(h uint32, v byte, n int) int {
	p := (int64(h) - int64(v)) % int64(n)
	if p < 0 {
		p += int64(n)
	}
	return int(p)
}

// TPBAt is what the TimePerBlock callback returns for height h.
func (sc *Scenario) TPBAt(h uint32) time.Duration {
	if sc.TPB2 > 0 && h >= sc.TPB2From && (!sc.TPBAlt || (h-sc.TPB2From)%2 == 0) {
		return sc.TPB2
	}
	return sc.TPB
}

// MaxTPBAt keeps the configured ratio of maximum to minimum block time at every height.
func (sc *Scenario) MaxTPBAt(h uint32) time.Duration {
	if sc.MaxTPB == 0 {
		return 0
	}
	// (milliseconds, so that the product cannot overflow)
	return time.Duration(sc.MaxTPB.Milliseconds()*sc.TPBAt(h).Milliseconds()/sc.TPB.Milliseconds()) * time.Millisecond
}

func (sc *Scenario) amevAt(h uint32) bool { return sc.AMEV >= 0 && uint32(sc.AMEV) <= h }

func (sc *Scenario) Summary() map[string]any {
	fk := make([]string, len(sc.Fault))
	for i, k := range sc.Fault {
		fk[i] = k.String()
	}
	ep := []string{}
	for _, e := range sc.Epochs {
		ep = append(ep, fmt.Sprintf("from %d: %v", e.From, e.Vals))
	}
	return map[string]any{
		"family": sc.Family, "identities": sc.NIdent, "observers": sc.NObs, "epochs": ep,
		"start_height": sc.Start, "heights": sc.Heights, "amev_height": sc.AMEV,
		"time_per_block_ms": sc.TPB.Milliseconds(), "max_time_per_block_ms": sc.MaxTPB.Milliseconds(), "time_per_block_2_ms": sc.TPB2.Milliseconds(), "time_per_block_alternates": sc.TPBAlt,
		"ts_increment": sc.TSInc, "fault_kinds": fk, "watch_only_flags": sc.FlagWO,
		"lat_base_ms": float64(sc.LatBase) / 1e6, "lat_jitter_ms": float64(sc.LatJitter) / 1e6,
		"drop_pm": sc.DropPM, "dup_pm": sc.DupPM, "gst_ms": float64(sc.GST) / 1e6,
		"partitions": sc.Partitions, "factions": sc.Factions, "crash_pm": sc.CrashPM, "adv_pm": sc.AdvPM,
		"early_timer": sc.EarlyTimer, "clock_skew": sc.ClockSkew, "map_order": sc.MapOrder,
		"tx_rate": sc.TxRate, "tx_missing": sc.TxMissing,
	}
}

var nWeights = []struct{ n, w int }{{1, 3}, {2, 2}, {3, 3}, {4, 34}, {5, 8}, {6, 7}, {7, 25}, {8, 5}, {9, 3}, {10, 10}, {11, 3}, {12, 3}, {13, 8}}

// Deep widens the scenario space (thorough tier): up to 13 validators (F = 4) wherever the
// quick tier goes up to 10, more heights per run, larger event caps.  It changes the meaning
// of tape values, so replay files record it.
var Deep bool

func drawN(t *Tape, lo, hi int) int {
	if Deep && hi >= 10 {
		hi = 13
	}
	tot := 0
	for _, x := range nWeights {
		if x.n >= lo && x.n <= hi {
			tot += x.w
		}
	}
	// value 0 must be the smallest scenario: order by n ascending, lowest first.
	r := int(t.Draw(SScen, uint64(tot)))
	for _, x := range nWeights {
		if x.n < lo || x.n > hi {
			continue
		}
		if r < x.w {
			return x.n
		}
		r -= x.w
	}
	return lo
}

func pick[T any](t *Tape, st Stream, xs ...T) T { return xs[t.Draw(st, uint64(len(xs)))] }

// baseScenario draws the parts common to all cluster families.
func baseScenario(t *Tape, family string, nlo, nhi int) *Scenario {
	sc := &Scenario{Family: family, AMEV: -1, TSInc: 1_000_000, Brains: 2, MaxViews: 8}
	n := drawN(t, nlo, nhi)
	sc.NIdent = n
	vals := make([]int, n)
	for i := range vals {
		vals[i] = i
	}
	sc.Epochs = []Epoch{{From: 0, Vals: vals}}
	sc.Fault = make([]FaultKind, n)
	sc.FlagWO = make([]bool, n)
	sc.Heights = int(t.Range(SScen, 2, 6))
	if Deep {
		sc.Heights = int(t.Range(SScen, 2, 12))
	}
	switch t.Draw(SScen, 4) {
	case 0:
		sc.Start = 0
	case 1:
		sc.Start = uint32(t.Range(SScen, 1, 5))
	case 2:
		sc.Start = uint32(n)*uint32(t.Range(SScen, 1, 3)) - 1
	case 3:
		sc.Start = uint32(t.Range(SScen, 6, 300))
	}
	switch t.Draw(SScen, 4) {
	case 0, 1:
		sc.AMEV = -1
	case 2:
		sc.AMEV = 0
	case 3:
		sc.AMEV = int64(sc.Start) + 1 + t.Range(SScen, 0, int64(sc.Heights))
	}
	sc.TPB = time.Duration(pick(t, SScen, 1000, 2000, 5000, 15000, 700, 1500)) * time.Millisecond
	sc.LatBase = pick(t, SScen, int64(1), 5, 20, 50, 200) * int64(time.Millisecond)
	sc.LatJitter = pick(t, SScen, int64(0), 1, 10, 50, 100) * int64(time.Millisecond)
	sc.Epoch0 = 1_000_000_000 * 1_000_000_000 // 2001-09-09, far from the wall clock on purpose
	sc.MaxTxPerBlock = int(t.Range(SScen, 0, 4))
	sc.TxRate = int(t.Draw(SScen, 4))
	sc.TxGossipMax = sc.LatBase * 4
	sc.SyncEvery = int64(sc.TPB) * pick(t, SScen, int64(1), 2, 4)
	sc.MaxEvents = 20000
	sc.MaxTime = int64(sc.TPB) * 1500
	if Deep {
		sc.MaxEvents = 60000
		sc.MaxTime *= 2
	}
	return sc
}

// addEpochs optionally makes the validator set change between heights: size,
// membership and order.  The faulty identities are chosen afterwards so that
// every epoch keeps <= F(epoch) faulty members.
func addEpochs(t *Tape, sc *Scenario) {
	if !t.Chance(SScen, 1, 4) {
		return
	}
	extra := int(t.Range(SScen, 0, 3))
	base := sc.NIdent
	sc.NIdent += extra
	sc.Fault = make([]FaultKind, sc.NIdent)
	sc.FlagWO = make([]bool, sc.NIdent)
	h := sc.Start + 1
	ne := int(t.Range(SScen, 1, 2))
	for e := 0; e < ne; e++ {
		h += uint32(t.Range(SScen, 1, 3))
		size := int(t.Range(SScen, 1, int64(sc.NIdent)))
		if size < base-2 {
			size = base - 2
		}
		if size < 1 {
			size = 1
		}
		perm := t.Perm(SScen, sc.NIdent)
		sc.Epochs = append(sc.Epochs, Epoch{From: h, Vals: append([]int(nil), perm[:size]...)})
	}
}

// chooseFaulty marks up to F identities faulty such that every epoch keeps
// at most F(epoch size) faulty members.
func chooseFaulty(t *Tape, sc *Scenario, kinds []FaultKind, maxCount int) {
	order := t.Perm(SScen, sc.NIdent)
	want := maxCount
	if want < 0 {
		want = sc.NIdent
	}
	cnt := 0
	for _, id := range order {
		if cnt >= want {
			break
		}
		ok := true
		member := false
		for _, e := range sc.Epochs {
			c := 0
			in := false
			for _, v := range e.Vals {
				if v == id {
					in = true
				}
				if sc.Fault[v] != FHonest {
					c++
				}
			}
			if in {
				member = true
				if c+1 > fOf(len(e.Vals)) {
					ok = false
				}
			}
		}
		if !ok || !member {
			continue
		}
		k := kinds[t.Draw(SScen, uint64(len(kinds)))]
		if !t.Chance(SScen, 3, 4) {
			continue // leave some budget unused
		}
		sc.Fault[id] = k
		cnt++
	}
}

// SafetyScenario: hostile network throughout, <=F faulty.
func SafetyScenario(t *Tape) *Scenario {
	sc := baseScenario(t, "safety", 1, 10)
	addEpochs(t, sc)
	if t.Chance(SScen, 1, 3) {
		sc.NObs = int(t.Range(SScen, 1, 2))
	}
	chooseFaulty(t, sc, []FaultKind{FSilent, FAmnesia, FSplit, FByz, FSplit, FByz}, -1)
	sc.GST = -1
	sc.DropPM = pick(t, SScen, uint64(0), 10, 50, 150, 300)
	sc.DupPM = pick(t, SScen, uint64(0), 10, 50, 200)
	sc.HeavyTail = t.Chance(SScen, 1, 2)
	sc.Partitions = t.Chance(SScen, 1, 2)
	sc.Factions = t.Chance(SScen, 2, 3)
	sc.CrashPM = pick(t, SScen, uint64(0), 2, 10, 30)
	sc.StallPM = pick(t, SScen, uint64(0), 2, 10)
	sc.EarlyTimer = t.Chance(SScen, 1, 3)
	sc.TriggerCut = t.Chance(SScen, 1, 3)
	sc.ClockSkew = t.Chance(SScen, 1, 3)
	sc.ClockJumps = t.Chance(SScen, 1, 5)
	sc.AdvPM = pick(t, SScen, uint64(0), 50, 150, 400)
	sc.ResetDelay = pick(t, SScen, int64(0), int64(sc.LatBase), int64(sc.TPB)/2, int64(sc.TPB)*3)
	sc.ProcErrPM = pick(t, SScen, uint64(0), 0, 100, 300)
	sc.MapOrder = int(t.Draw(SScen, 3))
	sc.TxMissing = t.Chance(SScen, 1, 2)
	sc.InvalidTxPM = pick(t, SScen, uint64(0), 0, 50, 200)
	if t.Chance(SScen, 1, 4) {
		sc.MaxTPB = sc.TPB * time.Duration(pick(t, SScen, 2, 3, 8, 1))
	}
	if t.Chance(SScen, 1, 4) {
		sc.TPB2 = sc.TPB * time.Duration(pick(t, SScen, 2, 3, 1, 6)) / 2
		sc.TPB2From = sc.Start + 1 + uint32(t.Range(SScen, 1, int64(sc.Heights)))
		if t.Chance(SScen, 1, 2) {
			// the block time changes with every block from then on (and the ledger may move on
			// by block sync before the application calls Reset: the callbacks then already answer
			// for the next height while the library is still at the old one)
			sc.TPBAlt = true
			sc.TPB2From = sc.Start + 1
			if t.Chance(SScen, 1, 2) {
				// ... together with the dynamic block time extension, an often idle chain and a
				// slow Reset: the window 'ledger already at the next height, library still at
				// the old one, the primary's timer fires with an empty pool' is then met often
				sc.MaxTPB = sc.TPB * time.Duration(pick(t, SScen, 1, 2, 3))
				sc.TxRate = int(t.Draw(SScen, 2))
				sc.ResetDelay = pick(t, SScen, int64(sc.TPB)*3, int64(sc.TPB)/2, int64(sc.TPB)*3)
			}
		}
	}
	if t.Chance(SScen, 1, 6) {
		// a validator with the watch-only flag set behaves like a silent one for
		// the others; it is counted against the fault budget by marking it here.
		for id := range sc.Fault {
			if sc.Fault[id] == FSilent {
				sc.Fault[id] = FHonest
				sc.FlagWO[id] = true
				break
			}
		}
	}
	// the application's policy callbacks (VerifyPrepareRequest / VerifyPrepareResponse /
	// VerifyCommit) reject now and then
	sc.VerdictPM = pick(t, SScen, uint64(0), 0, 0, 50, 200)
	if t.Chance(SScen, 1, 4) {
		restartFocus(t, sc)
	}
	return sc
}

// restartFocus biases a scenario towards "a validator votes, loses its state and comes back
// while the others have moved on": one faulty identity becomes an amnesia node that hears
// everything first (so it is usually the first to (pre)commit), the black-out trigger fires
// at its (pre)commits, its restarts may take long, and what it said before comes back to it.
func restartFocus(t *Tape, sc *Scenario) {
	id := -1
	for i, k := range sc.Fault {
		if k == FAmnesia {
			id = i
			break
		}
	}
	if id < 0 {
		for i, k := range sc.Fault {
			if k != FHonest {
				id = i
				sc.Fault[i] = FAmnesia
				break
			}
		}
	}
	if id < 0 {
		return
	}
	sc.FastIdent = id + 1
	sc.LongRestart = true
	sc.TriggerCut = true
	sc.HeavyTail = true
	sc.CrashPM = pick(t, SScen, uint64(0), 2, 10)
	if sc.DropPM > 50 {
		sc.DropPM = 50
	}
}

// TimingScenario: honest nodes (optionally <=F silent ones so that view changes
// happen), mild network, exact timers, several heights, so that primaries take
// round-trip samples and timers are adjusted.  Used by C14 (pair runs).
func TimingScenario(t *Tape) *Scenario {
	sc := baseScenario(t, "pair", 1, 7)
	if t.Chance(SScen, 1, 2) {
		chooseFaulty(t, sc, []FaultKind{FSilent}, 2)
	}
	sc.Heights = int(t.Range(SScen, 3, 7))
	sc.GST = int64(sc.TPB) * t.Range(SScen, 0, 6)
	sc.DropPM = pick(t, SScen, uint64(0), 0, 30, 100)
	sc.DupPM = pick(t, SScen, uint64(0), 0, 30)
	if t.Chance(SScen, 1, 6) {
		// a zero-latency network (one tick of the injected clock): a response is handled at the
		// very clock reading at which the request was sent
		sc.LatBase, sc.LatJitter = 0, 0
	}
	sc.Delta = sc.LatBase + sc.LatJitter
	sc.ClockSkew = t.Chance(SScen, 1, 2)
	sc.ClockJumps = t.Chance(SScen, 1, 4) // the same steps in both runs of a pair
	sc.ResetDelay = pick(t, SScen, int64(0), sc.LatBase, int64(sc.TPB)/4)
	sc.MapOrder = int(t.Draw(SScen, 3))
	sc.TxMissing = t.Chance(SScen, 1, 3)
	if t.Chance(SScen, 1, 4) {
		sc.MaxTPB = sc.TPB * time.Duration(pick(t, SScen, 2, 3, 8, 1))
	}
	sc.TSInc = pick(t, SScen, uint64(1_000_000), 1, 1000, 1_000_000_000, 7_000_000)
	// clock offset of the second run: multiples of the increment, seconds to decades, both signs
	secs := pick(t, SScen, int64(3600*24*365*30), 1, 3600, -3600*24*365*5, 3600*24*365*60, -3600*24*365*25, 86400*3)
	sc.ShiftNs = secs * 1_000_000_000 / int64(sc.TSInc) * int64(sc.TSInc)
	sc.MaxEvents = 20000
	return sc
}

// AMEVScenario: safety family with the anti-MEV extension always configured
// (on from genesis or switching on inside the run).
func AMEVScenario(t *Tape) *Scenario {
	sc := SafetyScenario(t)
	if sc.AMEV < 0 {
		if t.Chance(SScen, 1, 2) {
			sc.AMEV = 0
		} else {
			sc.AMEV = int64(sc.Start) + 1 + t.Range(SScen, 0, int64(sc.Heights))
		}
	}
	if t.Chance(SScen, 1, 2) {
		sc.ProcErrPM = pick(t, SScen, uint64(100), 300, 600)
	}
	return sc
}

// TxScenario: biased towards the conjunction C12 names - differing mempools,
// proposals containing transactions some backups lack, completed blocks that
// fail verification (so that the last supplied transaction triggers a change
// view), and a cached proposal of the next view waiting to be replayed inside
// the same call.  Half of the runs are otherwise calm (honest nodes, reliable
// network) so that the conjunction is reached often; the other half is the
// full safety family.
func TxScenario(t *Tape) *Scenario {
	var sc *Scenario
	calm := !t.Chance(SScen, 1, 3)
	if !calm {
		sc = SafetyScenario(t)
	} else {
		sc = baseScenario(t, "safety", 7, 10)
		sc.PoorNode = 1 + int(t.Draw(SScen, uint64(sc.NIdent)))
		sc.GST = -1
		sc.DropPM = pick(t, SScen, uint64(0), 0, 20)
		sc.DupPM = pick(t, SScen, uint64(0), 20)
		sc.MapOrder = int(t.Draw(SScen, 3))
		sc.ResetDelay = pick(t, SScen, int64(0), sc.LatBase)
		sc.Heights = int(t.Range(SScen, 3, 8))
	}
	sc.TxMissing = true
	sc.TxRate = 1 + int(t.Draw(SScen, 4))
	sc.MaxTxPerBlock = 1 + int(t.Draw(SScen, 4))
	sc.InvalidTxPM = pick(t, SScen, uint64(300), 100, 500, 0)
	sc.PoolHoldsInvalid = true
	sc.SupplySlow = int64(t.Draw(SScen, 4))
	if calm && t.Chance(SScen, 3, 4) {
		// the nested case wants: blocks that always carry transactions, many of them
		// invalid, and a supply that is slower than the others' view change
		sc.TxRate = 2 + int(t.Draw(SScen, 3))
		sc.MaxTxPerBlock = 2 + int(t.Draw(SScen, 3))
		sc.InvalidTxPM = pick(t, SScen, uint64(300), 500)
		sc.SupplySlow = 1 + int64(t.Draw(SScen, 3))
	}
	return sc
}

// WatchScenario: safety family where one validator carries the watch-only
// flag (counted against the fault budget) and observers are frequent; start
// heights are chosen so that the flagged validator is primary at start or
// after a reset.
func WatchScenario(t *Tape) *Scenario {
	sc := baseScenario(t, "safety", 1, 10)
	sc.NObs = int(t.Range(SScen, 0, 2))
	n := sc.NIdent
	if fOf(n) >= 1 || t.Chance(SScen, 1, 2) {
		w := int(t.Draw(SScen, uint64(n)))
		sc.FlagWO[w] = true
		// make it primary of the first height or of one of the next ones
		off := uint32(t.Draw(SScen, 3))
		sc.Start = uint32(w) + uint32(n)*uint32(t.Range(SScen, 0, 3))
		if sc.Start >= 1+off {
			sc.Start -= 1 + off
		} else {
			sc.Start += uint32(n) - 1 - off
		}
		if sc.AMEV > 0 {
			sc.AMEV = int64(sc.Start) + 1 + t.Range(SScen, 0, int64(sc.Heights))
		}
	}
	if fOf(n) >= 1 && t.Chance(SScen, 1, 3) {
		// instead of a validator that is watch-only from the start: one that takes part, crashes,
		// and is restarted by its operator in watch-only mode (it may get its own earlier
		// payloads back from its peers' recovery messages)
		for i := range sc.FlagWO {
			sc.FlagWO[i] = false
		}
		w := int(t.Draw(SScen, uint64(n)))
		sc.Fault[w] = FAmnesia
		sc.WOAfterRestart = make([]bool, n)
		sc.WOAfterRestart[w] = true
		sc.CrashPM = pick(t, SScen, uint64(10), 30, 60)
		if t.Chance(SScen, 1, 2) && sc.AMEV < 0 {
			sc.AMEV = 0
		}
	}
	sc.GST = -1
	sc.DropPM = pick(t, SScen, uint64(0), 10, 50, 150)
	sc.DupPM = pick(t, SScen, uint64(0), 10, 50)
	sc.Partitions = t.Chance(SScen, 1, 3)
	sc.StallPM = pick(t, SScen, uint64(0), 2, 10)
	sc.ResetDelay = pick(t, SScen, int64(0), int64(sc.LatBase), int64(sc.TPB)/2)
	sc.MapOrder = int(t.Draw(SScen, 3))
	sc.TxMissing = t.Chance(SScen, 1, 2)
	if t.Chance(SScen, 1, 3) {
		sc.MaxTPB = sc.TPB * time.Duration(pick(t, SScen, 2, 3, 8, 1))
	}
	if fOf(n) >= 1 && sc.WOAfterRestart == nil && t.Chance(SScen, 1, 4) {
		// a third way to become watch-only: the operator sets the flag while the validator is
		// running (the library reads it through a callback at every decision), at any moment -
		// also while the node waits for transactions with the dynamic block time extension on
		for i := range sc.FlagWO {
			sc.FlagWO[i] = false
		}
		w := int(t.Draw(SScen, uint64(n)))
		sc.WOFlipIdent = 1 + w
		sc.WOFlipAt = t.Range(SScen, 1, int64(sc.Heights)*8) * int64(sc.TPB) / 4
		if len(sc.Epochs) == 1 && t.Chance(SScen, 2, 3) {
			// make it the primary of one of the first heights
			off := uint32(t.Draw(SScen, 3))
			sc.Start = uint32(w) + uint32(n)*uint32(t.Range(SScen, 0, 3))
			if sc.Start >= 1+off {
				sc.Start -= 1 + off
			} else {
				sc.Start += uint32(n) - 1 - off
			}
			if sc.AMEV > 0 {
				sc.AMEV = int64(sc.Start) + 1 + t.Range(SScen, 0, int64(sc.Heights))
			}
		}
		if t.Chance(SScen, 2, 3) {
			sc.MaxTPB = sc.TPB * time.Duration(pick(t, SScen, 3, 2, 8))
			sc.TxRate = 1
		}
	}
	// proposals that fail verification and verification callbacks that reject: the
	// paths on which a node answers with a change-view request
	if t.Chance(SScen, 1, 2) {
		sc.TxRate = 1 + int(t.Draw(SScen, 3))
		sc.MaxTxPerBlock = 1 + int(t.Draw(SScen, 3))
		sc.InvalidTxPM = pick(t, SScen, uint64(200), 500)
		sc.PoolHoldsInvalid = true
	}
	if t.Chance(SScen, 1, 3) {
		sc.VerdictPM = pick(t, SScen, uint64(50), 200)
	}
	if t.Chance(SScen, 1, 4) {
		sc.TPB2 = sc.TPB * 3 / 2
		sc.TPB2From = sc.Start + 2
	}
	return sc
}

// SyncScenario: all honest, everybody boots at t=0 (in tape order), latency
// bounded by delta << T from the start, no loss, exact timers; the tape
// permutes deliveries inside the bound, duplicates messages and stalls Resets
// (by < T/4) so that next-height traffic arrives early.  No ledger sync: every
// height must be decided by consensus.
func SyncScenario(t *Tape) *Scenario {
	sc := baseScenario(t, "sync", 1, 10)
	epochs := false
	if os.Getenv("VERIF_EXP_SYNC_EPOCHS") != "" || t.Chance(SScen, 1, 3) {
		// the validator set changes between heights: nodes move between observer and validator
		// (a fault-free run all the same).  These runs have no slow application (see below).
		addEpochs(t, sc)
		epochs = len(sc.Epochs) > 1
	}
	sc.Heights = int(t.Range(SScen, 3, 8))
	sc.GST = 0
	sc.Delta = int64(sc.TPB) / pick(t, SScen, int64(1000), 200, 50, 20)
	sc.LatBase, sc.LatJitter = sc.Delta, 0
	sc.DupPM = pick(t, SScen, uint64(0), 50, 200)
	sc.ResetDelay = pick(t, SScen, int64(0), sc.Delta, int64(sc.TPB)/8, int64(sc.TPB)/4)
	sc.MapOrder = int(t.Draw(SScen, 3))
	sc.SyncEvery = 0
	sc.TxGossipMax = sc.Delta
	sc.TxMissing = false
	if t.Chance(SScen, 2, 3) {
		sc.SlowNode = 1 + int(t.Draw(SScen, uint64(sc.NIdent)))
	}
	if t.Chance(SScen, 1, 3) {
		sc.MaxTPB = sc.TPB * time.Duration(pick(t, SScen, 2, 3, 8, 1))
		if t.Chance(SScen, 1, 2) {
			sc.MaxTPB = sc.TPB * 3 / 2
		}
	}
	if t.Chance(SScen, 1, 3) {
		sc.NObs = int(t.Range(SScen, 1, 2))
	}
	if epochs && os.Getenv("VERIF_EXP_SYNC_EPOCHS") == "" {
		// A slow application delays the block it is needed for; a validator that was an observer
		// at that height has no previous-proposal time to shorten its first timer by, so it
		// proposes a full T after its Reset while the backups' timers are already shortened:
		// that is application slowness, not message order, so these runs have prompt Resets.
		sc.SlowNode = 0
		if sc.ResetDelay > sc.Delta {
			sc.ResetDelay = sc.Delta
		}
	}
	sc.MaxEvents = 60000
	// (drawn last so that the meaning of the earlier scenario draws is unchanged)
	sc.HonourStop = t.Chance(SScen, 1, 2)
	if sc.MaxTPB == 0 && t.Chance(SScen, 1, 3) {
		// pools that differ: one node misses most gossiped transactions and has to ask for the
		// proposal's transactions (the fault-free application supplies them within delta).  Not
		// with the dynamic block time extension: a primary whose pool stays empty while the
		// backups' pools fill waits for the maximum, the backups time out after twice the
		// minimum - lost gossip is a lost message, outside the precondition of C08 and C16.
		sc.PoorNode = 1 + int(t.Draw(SScen, uint64(sc.NIdent)))
		if sc.TxRate == 0 {
			sc.TxRate = 1 + int(t.Draw(SScen, 3))
		}
	}
	return sc
}

// DynScenario: SyncScenario with the maximum-block-time extension decided by
// the tape (on in most runs) and transaction arrival processes: never, before
// the minimum, inside the extended wait, bursts.
func DynScenario(t *Tape) *Scenario {
	sc := SyncScenario(t)
	sc.PoorNode = 0 // (see SyncScenario: no mempool-poor node with the extension)
	sc.NIdent = 0
	n := drawN(t, 1, 7)
	sc.NIdent = n
	vals := make([]int, n)
	for i := range vals {
		vals[i] = i
	}
	sc.Epochs = []Epoch{{From: 0, Vals: vals}}
	sc.Fault = make([]FaultKind, n)
	sc.FlagWO = make([]bool, n)
	sc.NObs = 0
	if t.Chance(SScen, 5, 6) {
		switch t.Draw(SScen, 5) {
		case 0:
			sc.MaxTPB = sc.TPB * 2
		case 1:
			sc.MaxTPB = sc.TPB * 3 / 2
		case 2:
			sc.MaxTPB = sc.TPB * 3
		case 3:
			sc.MaxTPB = sc.TPB * 8
		case 4:
			sc.MaxTPB = sc.TPB
		}
	} else {
		sc.MaxTPB = 0
	}
	sc.TxRate = 0
	sc.TxArrival = 1 + int(t.Draw(SScen, 4)) // 1 never, 2 before the minimum, 3 inside the extended wait, 4 bursts/mixed
	sc.MaxTxPerBlock = 1 + int(t.Draw(SScen, 4))
	sc.Heights = int(t.Range(SScen, 3, 6))
	sc.ResetDelay = pick(t, SScen, int64(0), sc.Delta)
	if sc.MaxTPB > 0 && t.Chance(SScen, 1, 3) {
		sc.EvictPM = pick(t, SScen, uint64(100), 300, 600)
	}
	sc.SlowNode = 0 // a slow responder inflates the primary's round-trip estimate, which the tolerance below does not cover
	return sc
}

// GSTScenario: arbitrary crash/partition/silence faults until GST, then
// latency <= delta, exact timers, no new faults, ledger sync active.
func GSTScenario(t *Tape) *Scenario {
	sc := baseScenario(t, "gst", 4, 10)
	sc.Heights = 3
	sc.Sub = int(t.Draw(SScen, 4)) // 0 silent from the start + synchrony from t=0, 1 cuts, 2 restarts, 3 mixed
	sc.Delta = int64(sc.TPB) / pick(t, SScen, int64(200), 50, 20)
	switch sc.Sub {
	case 0:
		chooseFaulty(t, sc, []FaultKind{FSilent}, -1)
		sc.GST = 0
		sc.LatBase, sc.LatJitter = sc.Delta, 0
	case 1:
		sc.Partitions = true
		sc.Factions = t.Chance(SScen, 1, 2) // group partitions: both sides stay alive and talk among themselves
		sc.GST = int64(sc.TPB) * t.Range(SScen, 1, 40)
	case 2:
		chooseFaulty(t, sc, []FaultKind{FAmnesia}, -1)
		sc.CrashPM = pick(t, SScen, uint64(5), 20, 60)
		sc.GST = int64(sc.TPB) * t.Range(SScen, 1, 40)
	case 3:
		chooseFaulty(t, sc, []FaultKind{FSilent, FAmnesia}, -1)
		sc.Partitions = true
		sc.CrashPM = pick(t, SScen, uint64(0), 5, 20)
		sc.DropPM = pick(t, SScen, uint64(0), 50, 200)
		sc.DupPM = pick(t, SScen, uint64(0), 50)
		sc.StallPM = pick(t, SScen, uint64(0), 5)
		sc.TriggerCut = t.Chance(SScen, 1, 2)
		sc.Factions = t.Chance(SScen, 1, 3)
		sc.GST = int64(sc.TPB) * t.Range(SScen, 1, 60)
	}
	sc.MapOrder = int(t.Draw(SScen, 3))
	sc.ResetDelay = pick(t, SScen, int64(0), sc.Delta, int64(sc.TPB)/8)
	sc.TxMissing = false
	sc.TxGossipMax = sc.Delta
	sc.MaxEvents = 200000
	sc.MaxTime = sc.GST + 400*int64(sc.TPB) + int64(sc.TPB)
	return sc
}

// ClockScenario: sync-like runs (so that many proposals are made) with clock
// skew, backward/forward clock steps, odd timestamp increments, and previous
// timestamps ahead of the clock.
func ClockScenario(t *Tape) *Scenario {
	sc := baseScenario(t, "gst", 1, 7)
	sc.Heights = int(t.Range(SScen, 3, 8))
	sc.GST = 0
	sc.Delta = int64(sc.TPB) / 50
	sc.LatBase, sc.LatJitter = sc.Delta, 0
	sc.TSInc = pick(t, SScen, uint64(1_000_000), 1, 7, 1000, 1_000_000_000, 7_000_000, 999_999_937)
	sc.ClockSkew = true
	sc.ClockJumps = t.Chance(SScen, 3, 4)
	sc.TxGossipMax = sc.Delta
	sc.TxMissing = t.Chance(SScen, 1, 3)
	if t.Chance(SScen, 1, 3) {
		chooseFaulty(t, sc, []FaultKind{FSilent}, 1) // view changes, so that proposals at views > 0 are judged too
	}
	if t.Chance(SScen, 1, 4) {
		sc.MaxTPB = sc.TPB * 2
	}
	sc.Epoch0 += int64(t.Draw(SScen, 1_000_000_007)) // not aligned to any increment
	if t.Chance(SScen, 1, 300) {
		// a very large verified pool (more than 2^16 transactions) at one or two validators:
		// the proposal must list all of it
		sc.HugePool = 65536 + int(t.Range(SScen, 0, 3000))
		n := 1 + int(t.Draw(SScen, 2))
		sc.NIdent = n
		vals := make([]int, n)
		for i := range vals {
			vals[i] = i
		}
		sc.Epochs = []Epoch{{From: 0, Vals: vals}}
		sc.Fault = make([]FaultKind, n)
		sc.FlagWO = make([]bool, n)
		sc.NObs = 0
		sc.Heights = 2
		sc.MaxTxPerBlock = sc.HugePool + 10
		sc.TxRate = 0
		sc.TxMissing = false
		sc.MaxEvents = 4000
	}
	return sc
}
