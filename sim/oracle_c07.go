package verifsim

import (
	"fmt"

	"github.com/nspcc-dev/dbft"
)

// C07 - anti-MEV phase discipline, as an automaton over the order of
// callbacks and broadcasts of each library instance between two
// initialisations.
type c07State struct {
	h            uint32
	preCommitOut bool
	preBlockOK   int
	preBlockCall int
	commitOut    bool
}

type OracleC07 struct {
	BaseOracle
	s  *Sim
	st map[int]*c07State
}

func NewOracleC07(s *Sim) *OracleC07 { return &OracleC07{s: s, st: map[int]*c07State{}} }
func (o *OracleC07) Name() string     { return "C07" }

func (o *OracleC07) viol(n *Node, class, f string, a ...any) {
	o.s.Violate("C07", class, n.String()+": "+fmt.Sprintf(f, a...), n.id)
}

func (o *OracleC07) BeforeCall(n *Node, st *Step) {
	if st.Op == OpStart || st.Op == OpReset {
		o.st[n.id] = &c07State{h: n.tip().Idx + 1}
	}
}

func (o *OracleC07) OnOut(n *Node, st *Step, out *Out) {
	r := o.st[n.id]
	if r == nil || n.d == nil || !n.judged() {
		return
	}
	h := n.d.BlockIndex
	amev := o.s.sc.amevAt(h)
	if o.s.sc.AMEV >= 0 && (uint32(o.s.sc.AMEV) == h || uint32(o.s.sc.AMEV) == h+1) && o.s.sc.AMEV > int64(o.s.sc.Start)+1 {
		o.s.note("run_crossed_enabling_height")
		o.s.st.Exercised = true
	}
	switch out.Kind {
	case OBroadcast:
		p := out.P
		switch p.T {
		case dbft.PreCommitType:
			if !o.s.sc.amevAt(p.H) {
				o.viol(n, "precommit_below_enabling_height", "pre-commit broadcast at height %d, the extension starts at %d", p.H, o.s.sc.AMEV)
				return
			}
			r.preCommitOut = true
		case dbft.CommitType:
			if !o.s.sc.amevAt(p.H) || r.commitOut {
				r.commitOut = true
				return
			}
			r.commitOut = true
			if n.inc > 1 && o.s.retransmission(n, p) {
				o.s.note("recovered_vote_retransmitted_after_restart")
				return // a restarted node sends again, unchanged, the commit it got back from its peers
			}
			if !r.preCommitOut && n.kind == FAmnesia && n.inc > 1 && n.d.MyIndex >= 0 && n.d.PreCommitPayloads[n.d.MyIndex] != nil {
				r.preCommitOut = true // a restarted node recovered its own earlier pre-commit from its peers
			}
			if !r.preCommitOut {
				o.viol(n, "commit_before_own_precommit", "height %d: commit broadcast before the node's own pre-commit", p.H)
				return
			}
			if r.preBlockOK == 0 {
				o.viol(n, "commit_before_preblock_processed", "height %d: commit broadcast before the pre-block callback succeeded", p.H)
				return
			}
			cnt := 0
			for _, e := range n.d.PreCommitPayloads {
				if e != nil && e.ViewNumber() == n.d.ViewNumber {
					cnt++
				}
			}
			if m := mOf(len(o.s.sc.ValsAt(p.H))); cnt < m {
				o.viol(n, "commit_without_M_precommits", "height %d view %d: commit broadcast holding %d current-view pre-commits (M=%d)", p.H, p.V, cnt, m)
				return
			}
		}
	case OProcessPreBlock:
		if !amev {
			o.viol(n, "preblock_callback_below_enabling_height", "ProcessPreBlock invoked at height %d, the extension starts at %d", h, o.s.sc.AMEV)
			return
		}
		r.preBlockCall++
		if r.preBlockOK > 0 {
			o.viol(n, "preblock_processed_twice", "height %d: ProcessPreBlock invoked again after it had succeeded", h)
			return
		}
		if out.OK {
			r.preBlockOK++
		} else {
			o.s.note("preblock_callback_failed")
			o.s.st.Exercised = true
		}
	case ONewBlock, OSign:
		if amev && r.preBlockOK == 0 {
			o.viol(n, "final_block_before_preblock_processed", "height %d: %s before the pre-block callback succeeded", h, outNames[out.Kind])
			return
		}
	case OSetData, ONewPreBlock:
		if !amev {
			o.viol(n, "preblock_built_below_enabling_height", "%s at height %d, the extension starts at %d", outNames[out.Kind], h, o.s.sc.AMEV)
			return
		}
	case OProcessBlock:
		if !out.OK {
			o.s.note("block_callback_failed")
			o.s.st.Exercised = true
		}
	}
}

func (o *OracleC07) AfterCall(n *Node, st *Step) {
	// out-of-phase arrivals make a run non-trivial
	if st.Op == OpReceive && st.P != nil && n.d != nil && o.s.sc.amevAt(st.PreBI) {
		if (st.P.T == dbft.PreCommitType || st.P.T == dbft.CommitType) && n.facts.anyEarly {
			o.s.st.Exercised = true
			o.s.note("precommit_or_commit_out_of_phase")
		}
	}
}
