#!/bin/bash
# Build the simulator test binary against the current working tree of the repository.
# usage: build.sh [repo]   (default /repo)  -> /verif/.build/sim.test
set -e
REPO=${1:-${VERIF_REPO:-/repo}}
V=$(cd "$(dirname "$0")" && pwd)
B=${VERIF_BUILD:-$V/.build}
export GOFLAGS=-mod=mod GOPROXY=off GOSUMDB=off GOTOOLCHAIN=local GOCACHE=$V/.cache/go-build
mkdir -p $B $V/.cache
GO=go1.26.8
( cd $V/tools/mkoverlay && $GO build -o $B/mkoverlay . )
$B/mkoverlay -repo $REPO -hooks $V/hooks -out $B/overlay > $B/overlay.log
sed "s#@REPO@#$REPO#" $V/sim/go.mod.tmpl > $B/sim.go.mod
cp $REPO/go.sum $B/sim.go.sum
( cd $V/sim && $GO test -c -tags verif -overlay $B/overlay/overlay.json -modfile $B/sim.go.mod -o $B/sim.test . )
# the example program (C17) with its overlay-added test entry point
cp $REPO/go.mod $B/repo.go.mod
# same for the example program: ECDSA keys and signatures repeat under cryptotest.SetGlobalRandom only with cryptocustomrand=0
grep -q "^godebug cryptocustomrand" $B/repo.go.mod || printf "\ngodebug cryptocustomrand=0\n" >> $B/repo.go.mod
cp $REPO/go.sum $B/repo.go.sum
( cd $REPO && $GO test -c -tags verif -overlay $B/overlay/overlay.json -modfile $B/repo.go.mod -o $B/simulation.test ./internal/simulation )
