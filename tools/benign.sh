#!/bin/bash
# usage: tools/benign.sh <budget_s> <patch.diff>... 
# Runs every simulator check against scratch copies of /repo with a property-PRESERVING patch
# applied; any VIOLATION is an over-strict oracle.  Works from a frozen copy of /verif (git HEAD)
# so that edits in the working tree do not interfere.  Nothing in /repo or /verif is touched.
budget=$1; shift
S=/tmp/vsnap.$$; rm -rf $S; mkdir -p $S
git -C /verif archive HEAD | tar -x -C $S
for patch in "$@"; do
  name=$(basename $patch .diff)
  W=/tmp/mut/bn_$name; rm -rf $W; mkdir -p $W/repo $W/out
  git -C /repo archive HEAD | tar -x -C $W/repo
  ( cd $W/repo && git init -q . && git apply --whitespace=nowarn $patch ) || { echo "PATCH FAILED $name"; continue; }
  suite=$(cd $W/repo && GOFLAGS=-mod=mod GOPROXY=off go test -vet=off -count=1 ./... 2>&1 | grep -v '^ok\|no test files' | head -3)
  [ -n "$suite" ] && { echo "$name: repository suite fails, not a benign change: $suite"; continue; }
  for p in ${BENIGN_PROPS:-C01 C02 C03 C04 C05 C07 C08 C09 C10 C11 C12 C13 C14 C15 C16}; do
    VERIF_REPO=$W/repo VERIF_BUILD=$W/build VERIF_OUT=$W/out VERIF_BUDGET_S=$budget VERIF_WORKERS=${VERIF_WORKERS:-6} $S/check $p quick > $W/$p.log 2>&1
    rc=$?
    echo "$name $p exit=$rc $(grep -m1 'class=' $W/$p.log | cut -c1-220)"
  done
  rm -rf $W/build $W/repo
done
rm -rf $S
