#!/bin/bash
# usage: tools/regress_mutants.sh [budget_s] > report
# Re-evaluates the own planted-bug patches (mutants/INDEX.txt: patch -> checks expected to
# catch it) against the current checks, on scratch copies of /repo.
budget=${1:-40}
while read name props; do
  [ -z "$name" ] && continue
  [ -f /verif/mutants/$name.diff ] || { echo "$name: patch missing"; continue; }
  /verif/tools/trymut.sh regm_$name /verif/mutants/$name.diff $budget $props
done < /verif/mutants/INDEX.txt
echo REGRESS-DONE
