#!/bin/bash
# usage: tools/regress_seeded.sh [budget_s] > report
# Re-evaluates every seeded change against the current checks (scratch copies only): for each
# /verif/seeded/<id> the checks named at the start of its "caught_by" text are run with the
# patch applied.  A change that was caught before and is not caught now is a regression of the
# machinery.
budget=${1:-40}
for d in /verif/seeded/*/; do
  id=$(basename $d)
  if [ -n "$REGRESS_IDS" ] && ! echo " $REGRESS_IDS " | grep -q " $id "; then continue; fi
  props=$(python3 - "$d/meta.json" <<'P'
import json,re,sys
m=json.load(open(sys.argv[1]))
t=m['caught_by']
if t.startswith('NOT CAUGHT'):
    print(m['property']); sys.exit()
ps=[]
for x in re.findall(r'\b(C\d\d)\b \(', t):
    if x not in ps: ps.append(x)
print(" ".join(ps[:2]) or m['property'])
P
)
  if [ "$(python3 -c "import json;print(json.load(open('$d/meta.json'))['property'])")" = "C20" ]; then
    W=/tmp/mut/regr_$id; rm -rf $W; mkdir -p $W/repo; git -C /repo archive HEAD | tar -x -C $W/repo
    ( cd $W/repo && git init -q . && git apply --whitespace=nowarn $d/patch.diff ) || { echo "$id PATCH FAILED"; continue; }
    VERIF_REPO=$W/repo VERIF_OUT=$W/out /verif/check C20 quick > $W/log 2>&1; echo "regr_$id C20 exit=$? $(grep -m1 class= $W/log | cut -c1-120)"; rm -rf $W
    continue
  fi
  /verif/tools/trymut.sh regr_$id $d/patch.diff $budget $props
done
echo REGRESS-DONE
