#!/usr/bin/env python3
"""Regenerates section 10.6 of DESIGN.md from seeded/*/meta.json and mutants/RESULTS.txt."""
import json, glob, re
rows = []
metas = [json.load(open(f)) for f in sorted(glob.glob('/verif/seeded/*/meta.json'))]
for m in metas:
    rows.append("| %s | %s | %s | %s |" % (m['id'], m['property'], m['change'].replace('|', '/'), m['caught_by'].replace('|', '/')))
own = {}
for l in open('/verif/mutants/RESULTS.txt'):
    m = re.match(r'(M\d+\w*) (C\d+) exit=(\d)( VIOLATION.*?class=(\w+))?', l)
    if m:
        own.setdefault(m.group(1), []).append((m.group(2), m.group(3), m.group(5)))
notes = json.load(open('/verif/mutants/NOTES.json'))
orows = []
for name in sorted(own):
    res = own[name]
    caught = [("%s (%s)" % (p, c)) for p, e, c in res if e == '1']
    missed = [p for p, e, c in res if e == '0']
    txt = ", ".join(caught) if caught else "-"
    if missed and caught:
        txt += "; not by " + ", ".join(missed) + " within 20 s"
    if name in notes:
        txt = notes[name]
    orows.append("| %s | %s |" % (name, txt))
missed_first = [m['id'] for m in metas if 'MISSED' in m['caught_by'] or 'missed before' in m['caught_by']]
not_caught = [m['id'] for m in metas if m['caught_by'].startswith('NOT CAUGHT')]
out = """### 10.6 Which checks catch which changes

**Independently written changes** (`/verif/seeded/<id>/`: `patch.diff`, the author's demonstration,
`MUTATION.md`, `meta.json`).  Each was written by a fresh sub-agent that saw only property text(s) and a
scratch worktree - nothing from /verif (waves 1-8: one property each, later waves with one-line
descriptions of the changes already tried and a per-property focus; waves 9-10: the repository's
`fix:` commits, with the task to undo one of them for a sub-case only; wave 11: all properties and one
code area, "make it look like an optimisation"; waves 12, 14, 15: all properties and one theme, code area or
narrow topic, two-site changes and changes behind rare but legal states; wave 13: one property each once more; waves 16-18: all properties and one theme each - validator counts not of the form 3F+1, both extensions together, the ledger moving under the library, time-outs per phase, unusual callback behaviour, single acts of a Byzantine validator, the reference payload code, the timer interface, state that lives across heights, time arithmetic, order of operations inside one call, silent nodes, the content of a node's own messages).  Each was confirmed by `tools/intake.sh` in a fresh
scratch copy (existing suite passes with it, the demo fails with it and passes without it) and
evaluated by `tools/trymut.sh` (quick tier, 15-90 s, 8 workers, scratch copy; `/repo` and
`/verif/evidence` untouched); `tools/regress_seeded.sh` re-evaluates all of them after changes.  %d changes, %d caught now;
%d of them only after the strengthening recorded in 10.2a (%s); not caught: %s.

| id | property | change | caught by |
|---|---|---|---|
""" % (len(rows), len(rows) - len(not_caught), len(missed_first), ", ".join(missed_first), ", ".join(not_caught) or "none") + "\n".join(rows) + """

**Own planted changes** (`/verif/mutants/*.diff`, one-line edits aimed at each mechanism the
properties name; 20 s, 8 workers; raw results in `mutants/RESULTS.txt`):

| patch | result |
|---|---|
""" + "\n".join(orows) + "\n"
p = '/verif/DESIGN.md'
s = open(p).read()
a = s.index('### 10.6 Which checks catch which changes')
b = s.index('Forks as such (C01) were produced')
s = s[:a] + out + "\n" + s[b:]
open(p, 'w').write(s)
print(len(rows), "seeded,", len(orows), "own")
