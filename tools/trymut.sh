#!/bin/bash
# usage: tools/trymut.sh <name> <patch.diff> <budget_s> <prop> [prop...]
# Evaluates the checks against a scratch copy of /repo with the patch applied.
# Nothing in /repo or in /verif/evidence is touched.
name=$1; patch=$2; budget=$3; shift 3
W=/tmp/mut/$name
rm -rf $W; mkdir -p $W/repo $W/out
git -C /repo archive HEAD | tar -x -C $W/repo
( cd $W/repo && git init -q . && git apply --whitespace=nowarn $patch ) || { echo "PATCH FAILED $name"; exit 2; }
for p in "$@"; do
  VERIF_REPO=$W/repo VERIF_BUILD=$W/build VERIF_OUT=$W/out VERIF_BUDGET_S=$budget VERIF_WORKERS=${VERIF_WORKERS:-8} /verif/check $p quick > $W/$p.log 2>&1
  rc=$?
  echo "$name $p exit=$rc $(grep -m1 '^VIOLATION' $W/$p.log | cut -c1-80) $(grep -m1 'class=' $W/$p.log | cut -c1-200)"
done
rm -rf $W/build $W/repo
