package verifsim

import (
	"encoding/json"
	"flag"
	"fmt"
	"os"
	"strings"
	"testing"
	"testing/cryptotest"
	"time"
)

var (
	fProp    = flag.String("verif.prop", "", "property id")
	fSeed    = flag.Uint64("verif.seed", 1, "base seed")
	fWorker  = flag.Int("verif.worker", 0, "worker index")
	fWorkers = flag.Int("verif.workers", 1, "worker count")
	fBudget  = flag.Float64("verif.budget", 10, "seconds")
	fMaxRuns = flag.Int("verif.maxruns", 0, "max runs (0 = budget only)")
	fOut     = flag.String("verif.out", "", "worker output json")
	fReplays = flag.String("verif.replaydir", "/verif/replays", "replay directory")
	fKnown   = flag.String("verif.known", "", "comma separated known-finding violation classes")
	fReplay  = flag.String("verif.replay", "", "replay file to re-execute")
	fSamples = flag.Int("verif.samples", 0, "sample runs to write out")
	fScratch = flag.String("verif.scratch", "", "unused")
	fScript  = flag.String("verif.script", "", "scripted finding to run")
	fDump    = flag.Int("verif.dump", -1, "dump the trace of this run index and exit")
	fDeep    = flag.Bool("verif.deep", false, "thorough tier: wider scenario space (up to 13 validators, more heights)")
)

func TestVerif(t *testing.T) {
	SetCryptoReseed(func(seed uint64) { cryptotest.SetGlobalRandom(t, seed) })
	pre := seedCrypto
	Deep = *fDeep
	if *fReplay != "" {
		ok, msg, rr := Replay(*fReplay, pre)
		if rr != nil {
			for _, l := range rr.Trace {
				fmt.Println(l)
			}
		}
		if ok {
			fmt.Println("REPLAY-REPRODUCED " + msg)
		} else {
			fmt.Println("REPLAY-FAILED " + msg)
		}
		return
	}
	if *fScript != "" {
		sc := Scripts[*fScript]
		if sc == nil {
			fmt.Println("SCRIPT-UNKNOWN " + *fScript)
			return
		}
		pre(1)
		ScriptTrace = *fDump >= 0
		v := sc.Run()
		if ScriptTrace && LastScriptSim != nil {
			for _, l := range LastScriptSim.trace {
				fmt.Println(l)
			}
		}
		if v != nil && v.Class == sc.Class {
			fmt.Printf("SCRIPT-REPRODUCED %s class=%s %s\n", sc.Name, v.Class, v.Detail)
		} else if v != nil {
			fmt.Printf("SCRIPT-OTHER %s class=%s %s\n", sc.Name, v.Class, v.Detail)
		} else {
			fmt.Printf("SCRIPT-CLEAN %s\n", sc.Name)
		}
		return
	}
	if *fProp == "" {
		t.Skip("no -verif.prop")
	}
	if *fDump >= 0 {
		p := Props[*fProp]
		seed := RunSeed(*fSeed, *fProp, uint64(*fDump))
		pre(seed)
		rr := p.Run(NewTape(seed), true)
		b, _ := json.Marshal(rr.Scen)
		fmt.Println(string(b))
		for _, l := range rr.Trace {
			fmt.Println(l)
		}
		fmt.Printf("violation=%v truncated=%q events=%d tracehash=%x faults=%v\n", rr.Viol, rr.St.Truncated, rr.St.Events, rr.St.TraceHash, rr.St.Fault)
		return
	}
	known := map[string]bool{}
	for _, k := range strings.Split(*fKnown, ",") {
		if k != "" {
			known[k] = true
		}
	}
	out := RunWorker(WorkerCfg{Prop: *fProp, BaseSeed: *fSeed, Worker: *fWorker, Workers: *fWorkers,
		Budget: time.Duration(*fBudget * float64(time.Second)), MaxRuns: *fMaxRuns, ReplayDir: *fReplays, Known: known,
		Pre: pre, Samples: *fSamples})
	b, _ := json.Marshal(out)
	if *fOut != "" {
		if err := os.WriteFile(*fOut, b, 0o644); err != nil {
			t.Fatal(err)
		}
	} else {
		out.SchedSigs, out.ExSigs, out.StateSigs = nil, nil, nil
		b, _ = json.MarshalIndent(out, "", " ")
		fmt.Println(string(b))
	}
}

// TestDeterminism prints the trace hash of the first -verif.maxruns runs; the
// driver compares them across processes and GOMAXPROCS settings.
func TestDeterminism(t *testing.T) {
	if *fProp == "" {
		t.Skip("no -verif.prop")
	}
	SetCryptoReseed(func(seed uint64) { cryptotest.SetGlobalRandom(t, seed) })
	p := Props[*fProp]
	n := *fMaxRuns
	if n <= 0 {
		n = 40
	}
	for r := 0; r < n; r++ {
		seed := RunSeed(*fSeed, *fProp, uint64(r))
		seedCrypto(seed)
		rr := p.Run(NewTape(seed), false)
		v := "-"
		if rr.Viol != nil {
			v = rr.Viol.Class
		}
		fmt.Printf("TRACE %d %x/%d/%s\n", r, rr.St.TraceHash, rr.St.Events, v)
	}
}
