package verifsim

import (
	"crypto/sha256"
	"encoding/binary"
	"encoding/hex"
	"fmt"

	"github.com/nspcc-dev/dbft"
)

// ---------------------------------------------------------------- hash

type Hash [32]byte

func (h Hash) String() string { return hex.EncodeToString(h[:5]) }

type hasher struct{ buf []byte }

func (w *hasher) u8(v byte)     { w.buf = append(w.buf, v) }
func (w *hasher) u16(v uint16)  { w.buf = binary.LittleEndian.AppendUint16(w.buf, v) }
func (w *hasher) u32(v uint32)  { w.buf = binary.LittleEndian.AppendUint32(w.buf, v) }
func (w *hasher) u64(v uint64)  { w.buf = binary.LittleEndian.AppendUint64(w.buf, v) }
func (w *hasher) bytes(b []byte) { w.u32(uint32(len(b))); w.buf = append(w.buf, b...) }
func (w *hasher) hash(h Hash)   { w.buf = append(w.buf, h[:]...) }
func (w *hasher) str(s string)  { w.u32(uint32(len(s))); w.buf = append(w.buf, s...) }
func (w *hasher) sum() Hash     { return sha256.Sum256(w.buf) }

// ---------------------------------------------------------------- keys (crypto stub)

// Keyring holds every identity's secret.  Only PrivKey values give access to
// signing; the adversary is handed the PrivKeys of faulty identities only.
type Keyring struct{ secrets [][32]byte }

func NewKeyring(seed uint64, n int) *Keyring {
	kr := &Keyring{secrets: make([][32]byte, n)}
	for i := range kr.secrets {
		var w hasher
		w.str("secret")
		w.u64(seed)
		w.u32(uint32(i))
		kr.secrets[i] = w.sum()
	}
	return kr
}

type PubKey struct {
	ID int
	kr *Keyring
}

type PrivKey struct {
	ID int
	kr *Keyring
}

func (kr *Keyring) Pub(id int) *PubKey   { return &PubKey{ID: id, kr: kr} }
func (kr *Keyring) Priv(id int) *PrivKey { return &PrivKey{ID: id, kr: kr} }

func (kr *Keyring) mac(id int, data []byte) []byte {
	h := sha256.New()
	h.Write(kr.secrets[id][:])
	h.Write(data)
	a := h.Sum(nil)
	h.Reset()
	h.Write(a)
	h.Write(kr.secrets[id][:])
	return h.Sum(a) // 64 bytes
}

func (k *PrivKey) Sign(data []byte) []byte { return k.kr.mac(k.ID, data) }

func (k *PubKey) Verify(data, sig []byte) bool {
	if len(sig) != 64 {
		return false
	}
	want := k.kr.mac(k.ID, data)
	for i := range want {
		if want[i] != sig[i] {
			return false
		}
	}
	return true
}

func (k *PubKey) String() string { return fmt.Sprintf("pub%d", k.ID) }

var errBadSig = fmt.Errorf("bad signature")

// ---------------------------------------------------------------- transactions

type Tx struct {
	ID      uint64
	Invalid bool // the application's verification rejects blocks containing it
	h       Hash
}

func NewTx(id uint64, invalid bool) *Tx {
	var w hasher
	w.str("tx")
	w.u64(id)
	return &Tx{ID: id, Invalid: invalid, h: w.sum()}
}

func (t *Tx) Hash() Hash { return t.h }

// ---------------------------------------------------------------- blocks

// Header carries every consensus-relevant block field.
type Header struct {
	Idx      uint32
	Prev     Hash
	TS       uint64
	Nonce    uint64
	TxHashes []Hash
	Final    bool // anti-MEV final block (deterministic function of the pre-block)
}

func (h *Header) hash(kind string) Hash {
	var w hasher
	w.str(kind)
	w.u32(h.Idx)
	w.hash(h.Prev)
	w.u64(h.TS)
	w.u64(h.Nonce)
	w.u32(uint32(len(h.TxHashes)))
	for _, x := range h.TxHashes {
		w.hash(x)
	}
	if h.Final {
		w.u8(1)
	} else {
		w.u8(0)
	}
	return w.sum()
}

func (h *Header) clone() Header {
	c := *h
	c.TxHashes = append([]Hash(nil), h.TxHashes...)
	return c
}

func (h *Header) sameContent(o *Header) bool {
	if h.Idx != o.Idx || h.Prev != o.Prev || h.TS != o.TS || h.Nonce != o.Nonce || len(h.TxHashes) != len(o.TxHashes) {
		return false
	}
	for i := range h.TxHashes {
		if h.TxHashes[i] != o.TxHashes[i] {
			return false
		}
	}
	return true
}

type Block struct {
	Header
	txs   []dbft.Transaction[Hash]
	sig   []byte
	hash  *Hash
	owner *Node // node whose library instance built it (nil for adversary-made)
	fromPre bool // anti-MEV: transactions were taken from the pre-block; SetTransactions is only a signal
}

var _ dbft.Block[Hash] = (*Block)(nil)

func (b *Block) Hash() Hash {
	if b.hash == nil {
		h := b.Header.hash("block")
		b.hash = &h
	}
	return *b.hash
}
func (b *Block) PrevHash() Hash { return b.Prev }
func (b *Block) MerkleRoot() Hash {
	var w hasher
	w.str("merkle")
	for _, x := range b.TxHashes {
		w.hash(x)
	}
	return w.sum()
}
func (b *Block) Index() uint32     { return b.Idx }
func (b *Block) Signature() []byte { return b.sig }
func (b *Block) Sign(key dbft.PrivateKey) error {
	k, ok := key.(*PrivKey)
	if !ok || k == nil {
		return fmt.Errorf("no private key")
	}
	h := b.Hash()
	b.sig = k.Sign(h[:])
	if b.owner != nil {
		b.owner.noteSign(b)
	}
	return nil
}
func (b *Block) Verify(key dbft.PublicKey, sign []byte) error {
	k, ok := key.(*PubKey)
	if !ok || k == nil {
		return errBadSig
	}
	h := b.Hash()
	if !k.Verify(h[:], sign) {
		return errBadSig
	}
	return nil
}
func (b *Block) Transactions() []dbft.Transaction[Hash]       { return b.txs }
func (b *Block) SetTransactions(t []dbft.Transaction[Hash]) {
	if !b.fromPre {
		b.txs = t
	}
}

type PreBlock struct {
	Header
	txs   []dbft.Transaction[Hash]
	data  []byte
	owner *Node
}

var _ dbft.PreBlock[Hash] = (*PreBlock)(nil)

func (b *PreBlock) preHash() Hash { return b.Header.hash("preblock") }
func (b *PreBlock) Data() []byte  { return b.data }
func (b *PreBlock) SetData(key dbft.PrivateKey) error {
	k, ok := key.(*PrivKey)
	if !ok || k == nil {
		return fmt.Errorf("no private key")
	}
	h := b.preHash()
	b.data = k.Sign(h[:])
	if b.owner != nil {
		b.owner.noteSetData(b)
	}
	return nil
}
func (b *PreBlock) Verify(key dbft.PublicKey, data []byte) error {
	k, ok := key.(*PubKey)
	if !ok || k == nil {
		return errBadSig
	}
	h := b.preHash()
	if !k.Verify(h[:], data) {
		return errBadSig
	}
	return nil
}
func (b *PreBlock) Transactions() []dbft.Transaction[Hash]     { return b.txs }
func (b *PreBlock) SetTransactions(t []dbft.Transaction[Hash]) { b.txs = t }

// ---------------------------------------------------------------- payloads

type PrepReq struct {
	TS     uint64
	Nnc    uint64
	Hashes []Hash
}

func (p *PrepReq) Timestamp() uint64         { return p.TS }
func (p *PrepReq) Nonce() uint64             { return p.Nnc }
func (p *PrepReq) TransactionHashes() []Hash { return p.Hashes }

type PrepResp struct{ Prep Hash }

func (p *PrepResp) PreparationHash() Hash { return p.Prep }

type ChView struct {
	NewView byte
	Rsn     dbft.ChangeViewReason
	TS      uint64
}

func (p *ChView) NewViewNumber() byte           { return p.NewView }
func (p *ChView) Reason() dbft.ChangeViewReason { return p.Rsn }

type CommitBody struct{ Sig []byte }

func (p *CommitBody) Signature() []byte { return p.Sig }

type PreCommitBody struct{ D []byte }

func (p *PreCommitBody) Data() []byte { return p.D }

type RecReq struct{ TS uint64 }

func (p *RecReq) Timestamp() uint64 { return p.TS }

// RecMsg keeps the embedded payloads with their original witnesses.  The Get*
// methods reproduce the semantics of a compacting codec: height (and for
// preparations the view) are taken from the carrying recovery message, and
// only payloads whose witness verifies against validators[index] are returned.
type RecMsg struct {
	PrepReqP   *Payload
	PrepResps  []*Payload
	ChViews    []*Payload
	PreCommits []*Payload
	Commits    []*Payload
	prepHash   *Hash
	// Lax: the application does not authenticate the compact entries (like the repository's
	// reference payloads): Get* return every entry of the right type and height.  Only the API
	// fuzz of C11 builds such messages; cluster runs always authenticate.
	Lax bool
}

type Payload struct {
	T       dbft.MessageType
	H       uint32
	V       byte
	Idx     uint16
	Body    any
	Witness []byte
	hash    *Hash
	sender  int // harness bookkeeping: node id of the broadcaster (-1: adversary / script)
}

var _ dbft.ConsensusPayload[Hash] = (*Payload)(nil)

func (p *Payload) ViewNumber() byte        { return p.V }
func (p *Payload) Type() dbft.MessageType  { return p.T }
func (p *Payload) Payload() any            { return p.Body }
func (p *Payload) ValidatorIndex() uint16  { return p.Idx }
func (p *Payload) SetValidatorIndex(i uint16) {
	if p.Idx != i {
		p.Idx = i
		p.hash = nil
	}
}
func (p *Payload) Height() uint32 { return p.H }

func (p *Payload) GetChangeView() dbft.ChangeView {
	if b, ok := p.Body.(*ChView); ok {
		return b
	}
	return nil
}
func (p *Payload) GetPrepareRequest() dbft.PrepareRequest[Hash] {
	if b, ok := p.Body.(*PrepReq); ok {
		return b
	}
	return nil
}
func (p *Payload) GetPrepareResponse() dbft.PrepareResponse[Hash] {
	if b, ok := p.Body.(*PrepResp); ok {
		return b
	}
	return nil
}
func (p *Payload) GetPreCommit() dbft.PreCommit {
	if b, ok := p.Body.(*PreCommitBody); ok {
		return b
	}
	return nil
}
func (p *Payload) GetCommit() dbft.Commit {
	if b, ok := p.Body.(*CommitBody); ok {
		return b
	}
	return nil
}
func (p *Payload) GetRecoveryRequest() dbft.RecoveryRequest {
	if b, ok := p.Body.(*RecReq); ok {
		return b
	}
	return nil
}
func (p *Payload) GetRecoveryMessage() dbft.RecoveryMessage[Hash] {
	if b, ok := p.Body.(*RecMsg); ok {
		return b
	}
	return nil
}

func (p *Payload) Hash() Hash {
	if p.hash != nil {
		return *p.hash
	}
	var w hasher
	w.str("payload")
	w.u8(byte(p.T))
	w.u32(p.H)
	w.u8(p.V)
	w.u16(p.Idx)
	switch b := p.Body.(type) {
	case *PrepReq:
		w.u64(b.TS)
		w.u64(b.Nnc)
		w.u32(uint32(len(b.Hashes)))
		for _, x := range b.Hashes {
			w.hash(x)
		}
	case *PrepResp:
		w.hash(b.Prep)
	case *ChView:
		w.u8(b.NewView)
		w.u8(byte(b.Rsn))
		w.u64(b.TS)
	case *CommitBody:
		w.bytes(b.Sig)
	case *PreCommitBody:
		w.bytes(b.D)
	case *RecReq:
		w.u64(b.TS)
	case *RecMsg:
		emb := func(tag byte, l []*Payload) {
			w.u8(tag)
			w.u32(uint32(len(l)))
			for _, e := range l {
				w.hash(e.Hash())
				w.bytes(e.Witness)
			}
		}
		if b.PrepReqP != nil {
			emb(1, []*Payload{b.PrepReqP})
		} else {
			emb(1, nil)
		}
		if b.prepHash != nil {
			w.hash(*b.prepHash)
		}
		emb(2, b.PrepResps)
		emb(3, b.ChViews)
		emb(4, b.PreCommits)
		emb(5, b.Commits)
	}
	h := w.sum()
	p.hash = &h
	return h
}

// Clone makes a deep copy (payloads are never shared between nodes).
func (p *Payload) Clone() *Payload {
	if p == nil {
		return nil
	}
	c := &Payload{T: p.T, H: p.H, V: p.V, Idx: p.Idx, Witness: append([]byte(nil), p.Witness...), sender: p.sender}
	switch b := p.Body.(type) {
	case *PrepReq:
		// an empty list stays an empty, non-nil list
		hs := make([]Hash, len(b.Hashes))
		copy(hs, b.Hashes)
		c.Body = &PrepReq{TS: b.TS, Nnc: b.Nnc, Hashes: hs}
	case *PrepResp:
		c.Body = &PrepResp{Prep: b.Prep}
	case *ChView:
		c.Body = &ChView{NewView: b.NewView, Rsn: b.Rsn, TS: b.TS}
	case *CommitBody:
		c.Body = &CommitBody{Sig: append([]byte(nil), b.Sig...)}
	case *PreCommitBody:
		c.Body = &PreCommitBody{D: append([]byte(nil), b.D...)}
	case *RecReq:
		c.Body = &RecReq{TS: b.TS}
	case *RecMsg:
		cl := func(l []*Payload) []*Payload {
			if l == nil {
				return nil
			}
			o := make([]*Payload, len(l))
			for i, e := range l {
				o[i] = e.Clone()
			}
			return o
		}
		n := &RecMsg{PrepReqP: b.PrepReqP.Clone(), PrepResps: cl(b.PrepResps), ChViews: cl(b.ChViews),
			PreCommits: cl(b.PreCommits), Commits: cl(b.Commits), Lax: b.Lax}
		if b.prepHash != nil {
			h := *b.prepHash
			n.prepHash = &h
		}
		c.Body = n
	default:
		c.Body = p.Body
	}
	return c
}

func (p *Payload) sign(k *PrivKey) {
	h := p.Hash()
	p.Witness = k.Sign(h[:])
}

func witnessOK(p *Payload, vals []dbft.PublicKey) bool {
	if int(p.Idx) >= len(vals) {
		return false
	}
	k, ok := vals[p.Idx].(*PubKey)
	if !ok {
		return false
	}
	h := p.Hash()
	return k.Verify(h[:], p.Witness)
}

func (p *Payload) String() string {
	s := fmt.Sprintf("%s{h=%d v=%d i=%d", p.T, p.H, p.V, p.Idx)
	switch b := p.Body.(type) {
	case *PrepReq:
		s += fmt.Sprintf(" ts=%d tx=%v", b.TS, b.Hashes)
	case *PrepResp:
		s += " prep=" + b.Prep.String()
	case *ChView:
		s += fmt.Sprintf(" new=%d rsn=%d", b.NewView, b.Rsn)
	case *RecMsg:
		pr := 0
		if b.PrepReqP != nil {
			pr = 1
		}
		s += fmt.Sprintf(" req=%d resp=%d cv=%d pc=%d c=%d", pr, len(b.PrepResps), len(b.ChViews), len(b.PreCommits), len(b.Commits))
	}
	return s + " #" + p.Hash().String() + "}"
}

// ---- RecoveryMessage interface

var _ dbft.RecoveryMessage[Hash] = (*RecMsg)(nil)

func (m *RecMsg) AddPayload(p dbft.ConsensusPayload[Hash]) {
	pp, ok := p.(*Payload)
	if !ok {
		return
	}
	switch pp.T {
	case dbft.PrepareRequestType:
		m.PrepReqP = pp
		h := pp.Hash()
		m.prepHash = &h
	case dbft.PrepareResponseType:
		m.PrepResps = append(m.PrepResps, pp)
		if m.prepHash == nil {
			if r := pp.GetPrepareResponse(); r != nil {
				h := r.PreparationHash()
				m.prepHash = &h
			}
		}
	case dbft.ChangeViewType:
		m.ChViews = append(m.ChViews, pp)
	case dbft.PreCommitType:
		m.PreCommits = append(m.PreCommits, pp)
	case dbft.CommitType:
		m.Commits = append(m.Commits, pp)
	}
}

func (m *RecMsg) PreparationHash() *Hash { return m.prepHash }

func (m *RecMsg) GetPrepareRequest(p dbft.ConsensusPayload[Hash], vals []dbft.PublicKey, primary uint16) dbft.ConsensusPayload[Hash] {
	e := m.PrepReqP
	if e == nil || e.T != dbft.PrepareRequestType || e.H != p.Height() || e.V != p.ViewNumber() || e.Idx != primary {
		return nil
	}
	if !m.Lax && !witnessOK(e, vals) {
		return nil
	}
	return e.Clone()
}

func (m *RecMsg) filter(l []*Payload, t dbft.MessageType, p dbft.ConsensusPayload[Hash], vals []dbft.PublicKey, sameView bool) []dbft.ConsensusPayload[Hash] {
	var out []dbft.ConsensusPayload[Hash]
	for _, e := range l {
		if e == nil || e.T != t || e.H != p.Height() {
			continue
		}
		if sameView && e.V != p.ViewNumber() {
			continue
		}
		if !m.Lax && !witnessOK(e, vals) {
			continue
		}
		out = append(out, e.Clone())
	}
	return out
}

func (m *RecMsg) GetPrepareResponses(p dbft.ConsensusPayload[Hash], vals []dbft.PublicKey) []dbft.ConsensusPayload[Hash] {
	return m.filter(m.PrepResps, dbft.PrepareResponseType, p, vals, true)
}
func (m *RecMsg) GetChangeViews(p dbft.ConsensusPayload[Hash], vals []dbft.PublicKey) []dbft.ConsensusPayload[Hash] {
	return m.filter(m.ChViews, dbft.ChangeViewType, p, vals, false)
}
func (m *RecMsg) GetPreCommits(p dbft.ConsensusPayload[Hash], vals []dbft.PublicKey) []dbft.ConsensusPayload[Hash] {
	return m.filter(m.PreCommits, dbft.PreCommitType, p, vals, false)
}
func (m *RecMsg) GetCommits(p dbft.ConsensusPayload[Hash], vals []dbft.PublicKey) []dbft.ConsensusPayload[Hash] {
	return m.filter(m.Commits, dbft.CommitType, p, vals, false)
}
