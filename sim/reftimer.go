package verifsim

import (
	"time"

	"github.com/nspcc-dev/dbft"
	"go.uber.org/zap"
)

// Reference timers.  Property C05 says that Start/Reset take the timing "afresh"; what "the
// full timer" is (today: T for the primary, 2T for a backup, T<<(v+1) on entering view v) is
// the library's own business and may be retuned by its maintainers.  The C05 timing rules
// therefore do not carry these numbers: they ask the library build under test itself, by
// running a FRESH, detached instance (no earlier height, no proposal ever seen, no round-trip
// sample, clock standing still) through the same initialisation and reading what it arms.
// The instance shares nothing with the run: no tape draws, no trace, no oracle sees it.

type refKey struct {
	T time.Duration
	X time.Duration // maximum block time (0: extension off)
	N int
}

type refVal struct {
	ok     bool
	prim0  time.Duration    // Reset to a height where the node is the view-0 primary
	back0  time.Duration    // Start at a height where the node is a backup
	back0R time.Duration    // Reset to a height where the node is a backup
	backV  [9]time.Duration // timer armed on entering view v as a backup (0: no reference)
}

var refCache = map[refKey]*refVal{}

type refTimer struct {
	now  time.Time
	h    uint32
	v    byte
	last time.Duration
	n    int
}

func (t *refTimer) Now() time.Time       { return t.now }
func (t *refTimer) Height() uint32       { return t.h }
func (t *refTimer) View() byte           { return t.v }
func (t *refTimer) C() <-chan time.Time  { return nil }
func (t *refTimer) Extend(time.Duration) {}
func (t *refTimer) Reset(h uint32, v byte, d time.Duration) {
	t.h, t.v, t.last = h, v, d
	t.n++
}

func refTimers(T, X time.Duration, N int) *refVal {
	k := refKey{T, X, N}
	if r, ok := refCache[k]; ok {
		return r
	}
	r := &refVal{}
	refCache[k] = r
	if N < 3 {
		return r
	}
	func() {
		defer func() {
			if recover() != nil {
				r.ok = false
			}
		}()
		calibrate(r, T, X, N)
	}()
	return r
}

func calibrate(r *refVal, T, X time.Duration, N int) {
	saved := dbft.VerifMapPerm
	dbft.VerifMapPerm = nil
	defer func() { dbft.VerifMapPerm = saved }()
	// Not at the first block of a chain: what the library does there is itself under judgement
	// (findings D14, R1); the reference is taken at an ordinary height.
	const base = uint32(5)
	me := 7 % N
	// Nothing below may make the instance propose: a proposal draws its nonce from the
	// process-wide seeded crypto/rand stream that the run under judgement also uses.
	// Height 6: the view-v primary is validator (6-v) mod N, so validator 7 mod N is a backup in
	// views 0..N-2 and the view-0 primary of height 7.
	d, tm, tip := refInstance(T, X, N, me)
	if d == nil {
		return
	}
	ts := uint64(tm.now.UnixNano())
	*tip = base
	d.Start(ts)
	if d.BlockIndex != base+1 || d.MyIndex != me || d.IsPrimary() || tm.n == 0 {
		return
	}
	r.back0 = tm.last
	// the next block arrives from the ledger at the same instant: height 7, we are its primary
	*tip = base + 1
	tm.n = 0
	d.Reset(ts)
	if d.BlockIndex != base+2 || !d.IsPrimary() || tm.n == 0 {
		return
	}
	r.prim0 = tm.last
	// one more block: height 8, a backup again
	*tip = base + 2
	tm.n = 0
	d.Reset(ts)
	if d.BlockIndex != base+3 || d.IsPrimary() || tm.n == 0 {
		return
	}
	r.back0R = tm.last
	r.ok = true
	// the ladder, on another fresh instance: time out, hear everybody else ask for the next
	// view, enter it as a backup
	d, tm, tip = refInstance(T, X, N, me)
	if d == nil {
		return
	}
	*tip = base
	d.Start(ts)
	for v := byte(1); int(v) <= N-2 && int(v) < len(r.backV); v++ {
		if d.ViewNumber != v-1 || d.IsPrimary() {
			return
		}
		d.OnTimeout(base+1, v-1)
		tm.n = 0
		for j := 0; j < N && d.ViewNumber == v-1; j++ {
			if j == me {
				continue
			}
			d.OnReceive(&Payload{T: dbft.ChangeViewType, H: base + 1, V: v - 1, Idx: uint16(j), Body: &ChView{NewView: v, Rsn: dbft.CVTimeout, TS: ts}, sender: -1})
		}
		if d.ViewNumber != v || d.IsPrimary() || tm.n == 0 || tm.h != base+1 || tm.v != v {
			return
		}
		r.backV[v] = tm.last
	}
}

func refInstance(T, X time.Duration, N, me int) (*dbft.DBFT[Hash], *refTimer, *uint32) {
	kr := NewKeyring(0x5eed, N)
	pubs := make([]dbft.PublicKey, N)
	for i := range pubs {
		pubs[i] = kr.Pub(i)
	}
	tip := new(uint32)
	tm := &refTimer{now: time.Unix(1_700_000_000, 0)}
	tipHash := func() Hash {
		var w hasher
		w.str("ref-tip")
		w.u32(*tip)
		return w.sum()
	}
	opts := []func(*dbft.Config[Hash]){
		dbft.WithLogger[Hash](zap.NewNop()),
		dbft.WithTimer[Hash](tm),
		dbft.WithTimePerBlock[Hash](func() time.Duration { return T }),
		dbft.WithGetKeyPair[Hash](func(ps []dbft.PublicKey) (int, dbft.PrivateKey, dbft.PublicKey) {
			return me, kr.Priv(me), kr.Pub(me)
		}),
		dbft.WithCurrentHeight[Hash](func() uint32 { return *tip }),
		dbft.WithCurrentBlockHash[Hash](tipHash),
		dbft.WithGetValidators[Hash](func(...dbft.Transaction[Hash]) []dbft.PublicKey { return pubs }),
		dbft.WithGetVerified[Hash](func() []dbft.Transaction[Hash] { return nil }),
		dbft.WithGetTx[Hash](func(Hash) dbft.Transaction[Hash] { return nil }),
		dbft.WithRequestTx[Hash](func(...Hash) {}),
		dbft.WithStopTxFlow[Hash](func() {}),
		dbft.WithVerifyBlock[Hash](func(dbft.Block[Hash]) bool { return true }),
		dbft.WithBroadcast[Hash](func(dbft.ConsensusPayload[Hash]) {}),
		dbft.WithProcessBlock[Hash](func(dbft.Block[Hash]) error { return nil }),
		dbft.WithNewBlockFromContext[Hash](func(c *dbft.Context[Hash]) dbft.Block[Hash] {
			hs := make([]Hash, len(c.TransactionHashes))
			copy(hs, c.TransactionHashes)
			return &Block{Header: Header{Idx: c.BlockIndex, Prev: c.PrevHash, TS: c.Timestamp, Nonce: c.Nonce, TxHashes: hs}}
		}),
		dbft.WithNewConsensusPayload[Hash](func(c *dbft.Context[Hash], t dbft.MessageType, msg any) dbft.ConsensusPayload[Hash] {
			return &Payload{T: t, H: c.BlockIndex, V: c.ViewNumber, Idx: uint16(c.MyIndex), Body: msg, sender: -1}
		}),
		dbft.WithNewPrepareRequest[Hash](func(ts uint64, nonce uint64, hs []Hash) dbft.PrepareRequest[Hash] {
			return &PrepReq{TS: ts, Nnc: nonce, Hashes: append([]Hash(nil), hs...)}
		}),
		dbft.WithNewPrepareResponse[Hash](func(h Hash) dbft.PrepareResponse[Hash] { return &PrepResp{Prep: h} }),
		dbft.WithNewChangeView[Hash](func(nv byte, rsn dbft.ChangeViewReason, ts uint64) dbft.ChangeView {
			return &ChView{NewView: nv, Rsn: rsn, TS: ts}
		}),
		dbft.WithNewCommit[Hash](func(sig []byte) dbft.Commit { return &CommitBody{Sig: append([]byte(nil), sig...)} }),
		dbft.WithNewRecoveryRequest[Hash](func(ts uint64) dbft.RecoveryRequest { return &RecReq{TS: ts} }),
		dbft.WithNewRecoveryMessage[Hash](func() dbft.RecoveryMessage[Hash] { return &RecMsg{} }),
	}
	if X > 0 {
		opts = append(opts, dbft.WithMaxTimePerBlock[Hash](func() time.Duration { return X }), dbft.WithSubscribeForTxs[Hash](func() {}))
	}
	d, err := dbft.New[Hash](opts...)
	if err != nil {
		return nil, nil, nil
	}
	return d, tm, tip
}
