package verifsim

import (
	"fmt"
)

// Canon builds a canonical, epoch-independent fingerprint of every step of a
// run: absolute timestamps have the epoch subtracted, every hash is replaced
// by its first-occurrence ordinal (hashes legitimately differ between runs
// with shifted clocks because timestamps are hashed); everything else -
// payload type/height/view/index/transactions/nonce/new view, Timer.Reset /
// Extend durations, callback order, decisions - is taken verbatim.
type Canon struct {
	BaseOracle
	s     *Sim
	epoch int64
	ord   map[Hash]uint64
	Steps []uint64 // one fingerprint per API call
	Desc  []string // only in record mode
	Only  func(n *Node) bool
}

func NewCanon(s *Sim) *Canon {
	return &Canon{s: s, epoch: s.sc.Epoch0, ord: map[Hash]uint64{}}
}

func (c *Canon) Name() string { return "canon" }

func (c *Canon) o(h Hash) uint64 {
	if v, ok := c.ord[h]; ok {
		return v
	}
	v := uint64(len(c.ord) + 1)
	c.ord[h] = v
	return v
}

func (c *Canon) ts(v uint64) uint64 { return v - uint64(c.epoch) }

func (c *Canon) payload(p *Payload) uint64 {
	if p == nil {
		return 0
	}
	h := mix64(uint64(p.T), uint64(p.H)<<24|uint64(p.V)<<16|uint64(p.Idx))
	switch b := p.Body.(type) {
	case *PrepReq:
		h = mix64(h, c.ts(b.TS))
		h = mix64(h, b.Nnc)
		for _, x := range b.Hashes {
			h = mix64(h, c.o(x))
		}
	case *PrepResp:
		h = mix64(h, c.o(b.Prep))
	case *ChView:
		h = mix64(h, uint64(b.NewView)<<8|uint64(b.Rsn))
		h = mix64(h, c.ts(b.TS))
	case *CommitBody:
		var w hasher
		w.bytes(b.Sig)
		h = mix64(h, c.o(w.sum()))
	case *PreCommitBody:
		var w hasher
		w.bytes(b.D)
		h = mix64(h, c.o(w.sum()))
	case *RecReq:
		h = mix64(h, c.ts(b.TS))
	case *RecMsg:
		h = mix64(h, c.payload(b.PrepReqP))
		for _, l := range [][]*Payload{b.PrepResps, b.ChViews, b.PreCommits, b.Commits} {
			h = mix64(h, uint64(len(l)))
			for _, e := range l {
				h = mix64(h, c.payload(e))
			}
		}
	}
	return mix64(h, c.o(p.Hash()))
}

func (c *Canon) AfterCall(n *Node, st *Step) {
	if c.Only != nil && !c.Only(n) {
		return
	}
	h := mix64(uint64(st.Node), uint64(st.Op))
	h = mix64(h, uint64(st.At))
	h = mix64(h, c.payload(st.P))
	if st.Tx != nil {
		h = mix64(h, st.Tx.ID)
	}
	if st.Op == OpStart || st.Op == OpReset {
		h = mix64(h, c.ts(st.Arg))
	}
	h = mix64(h, uint64(st.TH)<<8|uint64(st.TV))
	h = mix64(h, uint64(st.PostBI)<<8|uint64(st.PostV))
	for i := range st.Outs {
		o := &st.Outs[i]
		h = mix64(h, uint64(o.Kind))
		switch o.Kind {
		case OBroadcast:
			h = mix64(h, c.payload(o.P))
		case OTimerReset:
			h = mix64(h, uint64(o.H)<<8|uint64(o.V))
			h = mix64(h, uint64(o.D))
		case OTimerExtend:
			h = mix64(h, uint64(o.D))
		case OClockRead:
			h = mix64(h, c.ts(o.TS))
		case ONewPrepReq:
			h = mix64(h, c.ts(o.TS))
			h = mix64(h, o.Nonce)
			for _, x := range o.Hashes {
				h = mix64(h, c.o(x))
			}
		case ORequestTx, OGetVerified:
			for _, x := range o.Hashes {
				h = mix64(h, c.o(x))
			}
		default:
			if o.Hdr != nil {
				h = mix64(h, uint64(o.Hdr.Idx))
				h = mix64(h, c.ts(o.Hdr.TS))
				h = mix64(h, o.Hdr.Nonce)
				h = mix64(h, c.o(o.Hdr.Prev))
				for _, x := range o.Hdr.TxHashes {
					h = mix64(h, c.o(x))
				}
				h = mix64(h, c.o(o.Hash))
			}
			if o.OK {
				h = mix64(h, 1)
			}
		}
	}
	c.Steps = append(c.Steps, h)
	if c.s.record {
		d := fmt.Sprintf("t=%.6fs %s %s post=(%d,%d)", float64(st.At)/1e9, n, st.describe(), st.PostBI, st.PostV)
		for i := range st.Outs {
			d += " | " + st.Outs[i].describe()
		}
		c.Desc = append(c.Desc, d)
	}
}

// firstDiff returns the index of the first differing step, or -1.
func firstDiff(a, b []uint64) int {
	n := len(a)
	if len(b) < n {
		n = len(b)
	}
	for i := 0; i < n; i++ {
		if a[i] != b[i] {
			return i
		}
	}
	if len(a) != len(b) {
		return n
	}
	return -1
}
