package verifsim

import (
	"encoding/json"
	"flag"
	"fmt"
	"os"
	"testing"
	"testing/synctest"
	"time"

	"github.com/nspcc-dev/dbft/timer"
)

// C18 - the bundled timer, driven inside a testing/synctest bubble (fake
// clock, exact deadlines) by tape-generated sequences of Reset / Extend /
// sleep / non-blocking read / blocking read, against a reference model:
//
//	deadline = latest reset instant + reset duration + extensions made since
//
// never-early: no value may be read before the deadline of the latest reset;
// delivery: once an expiry is owed (after a Reset, or after an Extend that
// moves the deadline into the future) a reader that waits gets it exactly at
// the deadline (immediately if the deadline has passed); Height/View always
// report the latest reset.

var (
	f18Out = flag.String("c18.out", "", "worker output json")
)

type c18Op struct {
	Kind string `json:"op"` // reset extend sleep poll wait
	H    uint32 `json:"h,omitempty"`
	V    byte   `json:"v,omitempty"`
	D    int64  `json:"d_ms,omitempty"`
}

var c18Durs = []int64{0, 1, 5, 50, 700, 3000}

func c18Gen(t *Tape) []c18Op {
	n := 3 + int(t.Draw(SScen, 38))
	ops := make([]c18Op, 0, n)
	for i := 0; i < n; i++ {
		switch t.Draw(SApp, 10) {
		case 0, 1, 2:
			ops = append(ops, c18Op{Kind: "reset", H: uint32(1 + t.Draw(SApp, 5)), V: byte(t.Draw(SApp, 3)), D: c18Durs[t.Draw(SApp, uint64(len(c18Durs)))]})
		case 3, 4:
			ops = append(ops, c18Op{Kind: "extend", D: c18Durs[1+t.Draw(SApp, uint64(len(c18Durs)-1))]})
		case 5, 6:
			ops = append(ops, c18Op{Kind: "sleep", D: c18Durs[1+t.Draw(SApp, uint64(len(c18Durs)-1))]})
		case 7, 8:
			ops = append(ops, c18Op{Kind: "poll"})
		case 9:
			ops = append(ops, c18Op{Kind: "wait"})
		}
	}
	if len(ops) == 0 || ops[0].Kind != "reset" {
		ops = append([]c18Op{{Kind: "reset", H: 1, V: 0, D: c18Durs[t.Draw(SApp, uint64(len(c18Durs)))]}}, ops...)
	}
	return ops
}

type c18Verdict struct {
	Class     string
	Detail    string
	Exercised bool
	Reads     int
	SimNs     int64
	Log       []string
}

func c18Run(tt *testing.T, ops []c18Op, record bool) (v c18Verdict) {
	defer func() {
		if r := recover(); r != nil && v.Class == "" {
			v.Class, v.Detail = "panic_or_deadlock", fmt.Sprint(r)
		}
	}()
	synctest.Test(tt, func(*testing.T) {
		tm := timer.New()
		start := time.Now()
		now := func() int64 { return int64(time.Since(start)) }
		var (
			resetAt, total int64 // model: deadline = resetAt + total
			h              uint32
			vw             byte
			owed           bool // an expiry is owed to the reader
			readSince      bool // an expiry was read since the latest (re)arming
			armedOnce      bool
		)
		logf := func(f string, a ...any) {
			if record {
				v.Log = append(v.Log, fmt.Sprintf("t=%dms ", now()/1e6)+fmt.Sprintf(f, a...))
			}
		}
		fail := func(class, f string, a ...any) {
			if v.Class == "" {
				v.Class, v.Detail = class, fmt.Sprintf(f, a...)
				logf("VIOLATION %s: %s", class, v.Detail)
			}
		}
		check := func(got bool, how string) {
			dl := resetAt + total
			if got {
				v.Reads++
				if now() < dl {
					fail("early_expiry", "%s yielded an expiry at t=%.3f ms, the deadline of the latest reset (incl. extensions) is t=%.3f ms", how, float64(now())/1e6, float64(dl)/1e6)
				}
				owed, readSince = false, true
			}
		}
		for _, op := range ops {
			if v.Class != "" {
				break
			}
			switch op.Kind {
			case "reset":
				if armedOnce && (owed && now() >= resetAt+total || total == 0 && !readSince) {
					v.Exercised = true // reset hits a fired-but-unread or zero-duration timer
				}
				tm.Reset(op.H, op.V, time.Duration(op.D)*time.Millisecond)
				resetAt, total, h, vw = now(), op.D*1e6, op.H, op.V
				owed, readSince, armedOnce = true, false, true
				logf("Reset(%d,%d,%dms)", op.H, op.V, op.D)
			case "extend":
				if owed && now() >= resetAt+total || total == 0 {
					v.Exercised = true
				}
				tm.Extend(time.Duration(op.D) * time.Millisecond)
				total += op.D * 1e6
				if resetAt+total > now() {
					owed = true // the deadline moved into the future: a (new) expiry is owed at it
				}
				logf("Extend(%dms) -> deadline t=%dms", op.D, (resetAt+total)/1e6)
			case "sleep":
				time.Sleep(time.Duration(op.D) * time.Millisecond)
				logf("slept %dms", op.D)
			case "poll":
				synctest.Wait()
				got := false
				select {
				case <-tm.C():
					got = true
				default:
				}
				logf("poll -> %v", got)
				dl := resetAt + total
				wasOwed := owed
				check(got, "a non-blocking read")
				if !got && wasOwed && now() >= dl {
					fail("missing_expiry", "a non-blocking read at t=%.3f ms found nothing although the deadline t=%.3f ms has passed and no expiry was read since it was armed", float64(now())/1e6, float64(dl)/1e6)
				}
			case "wait":
				if !owed {
					continue
				}
				dl := resetAt + total
				lim := dl - now()
				if lim < 0 {
					lim = 0
				}
				got := false
				select {
				case <-tm.C():
					got = true
				case <-time.After(time.Duration(lim) + time.Millisecond):
				}
				logf("wait -> %v", got)
				if !got {
					fail("missing_expiry", "a reader waiting from before the deadline t=%.3f ms until t=%.3f ms got nothing", float64(dl)/1e6, float64(now())/1e6)
					break
				}
				check(true, "a blocking read")
				if want := max(dl, now()); now() > want {
					fail("late_expiry", "expiry delivered at t=%.3f ms, the deadline was t=%.3f ms", float64(now())/1e6, float64(dl)/1e6)
				}
			}
			if v.Class == "" && armedOnce && (tm.Height() != h || tm.View() != vw) {
				fail("wrong_epoch_reported", "Height()/View() = %d/%d, the latest reset was for %d/%d", tm.Height(), tm.View(), h, vw)
			}
		}
		v.SimNs = now()
	})
	return v
}

func max(a, b int64) int64 {
	if a > b {
		return a
	}
	return b
}

func TestC18(t *testing.T) {
	if *fReplay != "" {
		rf, err := ReadReplay(*fReplay)
		if err != nil {
			fmt.Println("REPLAY-FAILED " + err.Error())
			return
		}
		ops := c18Gen(NewReplayTape(mapToTape(rf.Tape)))
		v := c18Run(t, ops, true)
		for _, l := range v.Log {
			fmt.Println(l)
		}
		if v.Class != "" && rf.Violation != nil && v.Class == rf.Violation.Class {
			fmt.Println("REPLAY-REPRODUCED " + v.Class + ": " + v.Detail)
		} else {
			fmt.Printf("REPLAY-FAILED got class %q\n", v.Class)
		}
		return
	}
	if *f18Out == "" {
		t.Skip("no -c18.out")
	}
	start := time.Now()
	out := &WorkerOut{Property: "C18", Worker: *fWorker, Faults: map[string]int{}, Probes: map[string]int{}, Notes: map[string]int{}, Truncated: map[string]int{}, HeightsHist: map[string]int{}}
	sigs := map[uint64]struct{}{}
	for r := uint64(*fWorker); time.Since(start).Seconds() < *fBudget; r += uint64(*fWorkers) {
		seed := RunSeed(*fSeed, "C18", r)
		tape := NewTape(seed)
		ops := c18Gen(tape)
		v := c18Run(t, ops, false)
		out.Runs++
		out.Sims++
		out.Calls += len(ops)
		out.SimTimeNs += v.SimNs
		for _, op := range ops {
			out.Faults["op:"+op.Kind]++
		}
		var sig uint64
		for _, op := range ops {
			sig = mix64(sig, strHash(op.Kind)^uint64(op.D)<<8^uint64(op.H)<<40)
		}
		if v.Exercised {
			out.Exercised++
			sigs[sig] = struct{}{}
		}
		if len(out.Samples) < 2 && *fWorker == 0 {
			out.Samples = append(out.Samples, map[string]any{"run_index": r, "ops": ops, "reads": v.Reads})
		}
		if v.Class != "" {
			// shrink: drop operations while the same class persists
			cur := ops
			for changed := true; changed; {
				changed = false
				for i := 1; i < len(cur); i++ {
					cand := append(append([]c18Op{}, cur[:i]...), cur[i+1:]...)
					if c18Run(t, cand, false).Class == v.Class {
						cur, changed = cand, true
						break
					}
				}
			}
			fin := c18Run(t, cur, true)
			path := fmt.Sprintf("%s/C18-%d-%d.json", *fReplays, *fSeed, r)
			b, _ := json.MarshalIndent(map[string]any{"property": "C18", "base_seed": *fSeed, "run_index": r, "run_seed": seed, "tape": tapeToMap(tape.Rec),
				"violation": Violation{Prop: "C18", Class: v.Class, Detail: v.Detail}, "minimised_ops": cur, "schedule_and_fault_trace": fin.Log}, "", " ")
			_ = os.WriteFile(path, b, 0o644)
			out.Violations = append(out.Violations, WViol{Violation: Violation{Prop: "C18", Class: v.Class, Detail: v.Detail}, Replay: path, Repro: true})
			break
		}
	}
	out.WallS = time.Since(start).Seconds()
	out.ExSigs = keys(sigs)
	out.Rule = "one evaluation = one tape-generated sequence of 3-40 Reset/Extend/sleep/poll/wait operations on a real timer.Timer inside a synctest bubble; non-trivial iff an Extend or Reset hit a fired-but-unread or a zero-duration timer; distinct = distinct operation sequences"
	b, _ := json.Marshal(out)
	if err := os.WriteFile(*f18Out, b, 0o644); err != nil {
		t.Fatal(err)
	}
}
