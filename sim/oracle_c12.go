package verifsim

import (
	"fmt"

	"github.com/nspcc-dev/dbft"
)

// C12 - a backup that is given every requested transaction answers.
type c12Obl struct {
	h        uint32
	v        byte
	prop     Hash
	req      map[Hash]bool // requested through RequestTx for this proposal
	supplied map[Hash]bool // passed to OnTransaction under the property's precondition
	answered bool
	left     bool // the node itself asked to leave the view
	noted    bool
	traffic  bool // a timeout or consensus payload had an effect between the request and the supply
}

type OracleC12 struct {
	BaseOracle
	s   *Sim
	obl map[int]*c12Obl
	cv  map[int]hv // highest view each node has itself asked for, per height
}

func NewOracleC12(s *Sim) *OracleC12 { return &OracleC12{s: s, obl: map[int]*c12Obl{}, cv: map[int]hv{}} }
func (o *OracleC12) Name() string     { return "C12" }

func (o *OracleC12) BeforeCall(n *Node, st *Step) {
	if st.Op == OpStart || st.Op == OpReset {
		delete(o.obl, n.id)
	}
}

func (o *OracleC12) OnOut(n *Node, st *Step, out *Out) {
	if n.d == nil || !n.judged() {
		return
	}
	d := n.d
	switch out.Kind {
	case ORequestTx:
		// a request belongs to the proposal being accepted for the node's current
		// height and view (a node accepts at most one proposal per view)
		ob := o.obl[n.id]
		// the property speaks about backups: validators that are not the primary
		// of the view and do not have the watch-only flag set
		idx := o.s.sc.IndexAt(d.BlockIndex, n.ident)
		if idx < 0 || n.flagWO || idx == primaryOf(d.BlockIndex, d.ViewNumber, len(o.s.sc.ValsAt(d.BlockIndex))) {
			return
		}
		if ob == nil || ob.h != d.BlockIndex || ob.v != d.ViewNumber {
			ob = &c12Obl{h: d.BlockIndex, v: d.ViewNumber, req: map[Hash]bool{}, supplied: map[Hash]bool{}}
			if x, ok := o.cv[n.id]; ok && x.h == ob.h && x.v > ob.v {
				ob.left = true // it had asked to leave this view before it got the proposal
			}
			o.obl[n.id] = ob
			o.s.note("obligation_opened")
			if st.Op == OpTx {
				o.s.note("obligation_opened_inside_OnTransaction")
				o.s.st.Exercised = true
			}
		}
		for _, h := range out.Hashes {
			ob.req[h] = true
		}
	case OBroadcast:
		if cv, ok := out.P.Body.(*ChView); ok && out.P.T == dbft.ChangeViewType {
			if x, ok2 := o.cv[n.id]; !ok2 || x.h != out.P.H || cv.NewView > x.v {
				o.cv[n.id] = hv{out.P.H, cv.NewView}
			}
		}
		ob := o.obl[n.id]
		if ob == nil || out.P.H != ob.h {
			return
		}
		switch out.P.T {
		case dbft.PrepareResponseType:
			if out.P.V == ob.v {
				ob.answered = true
			}
		case dbft.ChangeViewType:
			if cv, ok := out.P.Body.(*ChView); ok && cv.NewView > ob.v {
				if st.Op == OpTx {
					// a change-view request is the answer only "if the completed block fails
					// verification": the application's verification callback must have said
					// no earlier in this very call
					failed := false
					for i := range st.Outs {
						if x := &st.Outs[i]; (x.Kind == OVerifyBlock || x.Kind == OVerifyPreBlock) && !x.OK {
							failed = true
						}
					}
					if failed {
						ob.answered = true
						o.s.note("answered_by_change_view_on_last_transaction")
						o.s.st.Exercised = true
					} else {
						ob.left = false
						o.s.note("change_view_on_last_transaction_without_failed_verification")
					}
				} else {
					ob.left = true
				}
			}
		}
	}
}

func (o *OracleC12) AfterCall(n *Node, st *Step) {
	if n.d == nil || st.Panic != nil || !n.judged() {
		return
	}
	d := n.d
	if st.Op != OpTx {
		if ob := o.obl[n.id]; ob != nil && len(ob.req) > 0 && !ob.answered && (st.Op == OpTimeout || (st.Op == OpReceive && st.P != nil && st.P.T != dbft.PrepareRequestType)) && len(st.Outs) > 0 {
			ob.traffic = true
		}
		// the obligation dies when the node leaves the view or decides
		if ob := o.obl[n.id]; ob != nil && (ob.h != d.BlockIndex || ob.v != d.ViewNumber || d.BlockSent()) {
			delete(o.obl, n.id)
		}
		return
	}
	ob := o.obl[n.id]
	if ob == nil {
		return
	}
	if q, _ := d.PreparationPayloads[d.PrimaryIndex].(*Payload); q != nil && ob.h == d.BlockIndex && ob.v == d.ViewNumber {
		ob.prop = q.Hash()
	}
	// precondition at the start of this supply: same view, proposal held, node had not asked to leave
	if st.PreBI == ob.h && st.PreV == ob.v && !st.PreDec && !ob.left && ob.req[st.Tx.Hash()] {
		ob.supplied[st.Tx.Hash()] = true
		if ob.traffic {
			o.s.note("supply_interleaved_with_consensus_traffic_or_timeout")
			o.s.st.Exercised = true
		}
	} else if st.PreBI != ob.h || st.PreV != ob.v {
		// the obligation was opened inside this very call (new view): this supply belonged to the old one
	}
	if ob.h != d.BlockIndex || ob.v != d.ViewNumber {
		if !(st.PostBI == ob.h && st.PostV == ob.v) {
			delete(o.obl, n.id)
			return
		}
	}
	if ob.left || len(ob.req) == 0 {
		return
	}
	if ob.answered {
		if !ob.noted {
			ob.noted = true
			o.s.note("answered_obligation")
		}
		return
	}
	for h := range ob.req {
		if !ob.supplied[h] {
			return
		}
	}
	if n.kind == FAmnesia && n.inc > 1 && (d.ResponseSent() || d.CommitSent() || d.PreCommitSent()) {
		// a restarted node that recovered its own earlier response or (pre)commit from its
		// peers has answered the proposal in its previous life (observation O7: it then
		// ignores the transaction and cannot complete the block by itself)
		o.s.note("restarted_node_with_recovered_commit")
		return
	}
	o.s.note("all_requested_supplied")
	o.s.Violate("C12", "no_answer_after_last_transaction", fmt.Sprintf("%s: height %d view %d: all %d requested transactions of proposal %s were supplied, the last one (tx%d) in this call, but the node broadcast neither a prepare response nor a change-view request",
		n, ob.h, ob.v, len(ob.req), ob.prop, st.Tx.ID), n.id)
}
