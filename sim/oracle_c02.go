package verifsim

import (
	"fmt"

	"github.com/nspcc-dev/dbft"
)

// acceptRec is the harness record of one block handed to the application.
type acceptRec struct {
	node int
	hash Hash
	cert certStatus
}

// recordAccept evaluates the certificate at the instant of the callback.
func (s *Sim) recordAccept(n *Node, blk *Block) certStatus {
	cs := n.commitCert(blk)
	if s.accepts == nil {
		s.accepts = map[uint32][]acceptRec{}
	}
	s.accepts[blk.Idx] = append(s.accepts[blk.Idx], acceptRec{n.id, blk.Hash(), cs})
	return cs
}

// C02 - decision certificate.  Evaluated inside ProcessBlock / ProcessPreBlock
// on every library instance (honest code everywhere, whatever the identity).
type OracleC02 struct {
	BaseOracle
	s *Sim
}

func NewOracleC02(s *Sim) *OracleC02 { return &OracleC02{s: s} }
func (o *OracleC02) Name() string     { return "C02" }

func (o *OracleC02) matchesProposal(n *Node, h *Header) (bool, string) {
	d := n.d
	props := n.facts.proposals[hv{d.BlockIndex, d.ViewNumber}]
	prim := primaryOf(d.BlockIndex, d.ViewNumber, len(o.s.sc.ValsAt(d.BlockIndex)))
	if len(props) == 0 {
		return false, "no proposal for this view was ever delivered to or broadcast by the node"
	}
	// the proposal of the view is the one the node itself holds in the primary's slot; the
	// harness record of delivered proposals is only the fall-back (a primary that recovered its
	// own request keeps it elsewhere, a watch-only node may have been given several)
	if held, ok := d.PreparationPayloads[d.PrimaryIndex].(*Payload); ok && held != nil && held.T == dbft.PrepareRequestType && held.V == d.ViewNumber {
		props = []*Payload{held}
	}
	for _, p := range props {
		if int(p.Idx) != prim {
			continue
		}
		pr, ok := p.Body.(*PrepReq)
		if !ok {
			continue
		}
		if pr.TS != h.TS || pr.Nnc != h.Nonce || len(pr.Hashes) != len(h.TxHashes) {
			continue
		}
		same := true
		for i := range pr.Hashes {
			if pr.Hashes[i] != h.TxHashes[i] {
				same = false
			}
		}
		if same {
			return true, ""
		}
	}
	return false, fmt.Sprintf("block (ts=%d nonce=%d ntx=%d) equals none of the %d proposal(s) of primary %d seen for view %d",
		h.TS, h.Nonce, len(h.TxHashes), len(props), prim, d.ViewNumber)
}

func (o *OracleC02) OnOut(n *Node, st *Step, out *Out) {
	s := o.s
	switch out.Kind {
	case OProcessBlock:
		blk := &Block{Header: *out.Hdr}
		cs := n.commitCert(blk)
		if cs.InvalidEarly+cs.InvalidLate+cs.OtherView > 0 || n.facts.anyEarly {
			s.st.Exercised = true
		}
		if !cs.ok() {
			class := "cert_short_or_invalid"
			if cs.knownD1() {
				class = "cert_counts_unverified_early_commit"
			} else if cs.onlyEarlyInvalid() {
				class = "cert_counts_unverified_early_commit_at_primary_or_antimev"
			}
			// (a hit of the known finding D1 does not end the run: the tip, proposal and
			// transaction rules below, and the rest of the run, are still judged)
			if !s.ViolateKnown("C02", class, fmt.Sprintf("%s accepted block %s at height %d view %d holding %d valid current-view commits (M=%d), %d invalid taken in before the header was known, %d invalid taken in later, %d of other views",
				n, out.Hash, out.Hdr.Idx, n.d.ViewNumber, cs.Valid, cs.M, cs.InvalidEarly, cs.InvalidLate, cs.OtherView), n.id) {
				return
			}
		}
		if out.Hdr.Idx != n.initTip+1 || out.Hdr.Prev != n.initTipHash {
			s.Violate("C02", "block_does_not_extend_tip", fmt.Sprintf("%s accepted block idx=%d prev=%s but the ledger tip reported at initialisation was %d %s",
				n, out.Hdr.Idx, out.Hdr.Prev, n.initTip, n.initTipHash), n.id)
			return
		}
		if ok, why := o.matchesProposal(n, out.Hdr); !ok {
			s.Violate("C02", "block_is_not_the_proposal", fmt.Sprintf("%s height %d: %s", n, out.Hdr.Idx, why), n.id)
			return
		}
		// transactions handed over match the listed hashes, in order
		if bb := n.lastBlockObj; bb != nil {
			if len(bb.txs) != len(bb.TxHashes) {
				s.Violate("C02", "block_transactions_mismatch", fmt.Sprintf("%s height %d: %d transactions for %d hashes", n, bb.Idx, len(bb.txs), len(bb.TxHashes)), n.id)
				return
			}
			for i, t := range bb.txs {
				if t == nil || t.Hash() != bb.TxHashes[i] {
					s.Violate("C02", "block_transactions_mismatch", fmt.Sprintf("%s height %d: transaction %d is missing or out of order", n, bb.Idx, i), n.id)
					return
				}
			}
		}
	case OProcessPreBlock:
		pb := &PreBlock{Header: *out.Hdr}
		cs := n.preCommitCert(pb)
		if cs.InvalidEarly+cs.InvalidLate+cs.OtherView > 0 || n.facts.anyEarly {
			s.st.Exercised = true
		}
		if !cs.ok() {
			class := "precert_short_or_invalid"
			if cs.onlyEarlyInvalid() {
				class = "precert_counts_unverified_early_precommit"
			}
			s.Violate("C02", class, fmt.Sprintf("%s handed over pre-block at height %d view %d holding %d valid current-view pre-commits (M=%d), %d invalid early, %d invalid late, %d other views",
				n, out.Hdr.Idx, n.d.ViewNumber, cs.Valid, cs.M, cs.InvalidEarly, cs.InvalidLate, cs.OtherView), n.id)
			return
		}
		if out.Hdr.Idx != n.initTip+1 || out.Hdr.Prev != n.initTipHash {
			s.Violate("C02", "preblock_does_not_extend_tip", fmt.Sprintf("%s pre-block idx=%d prev=%s, tip at initialisation %d %s",
				n, out.Hdr.Idx, out.Hdr.Prev, n.initTip, n.initTipHash), n.id)
			return
		}
		if ok, why := o.matchesProposal(n, out.Hdr); !ok {
			s.Violate("C02", "preblock_is_not_the_proposal", fmt.Sprintf("%s height %d: %s", n, out.Hdr.Idx, why), n.id)
			return
		}
		if pb := n.lastPreBlockObj; pb != nil {
			if len(pb.txs) != len(pb.TxHashes) {
				s.Violate("C02", "preblock_transactions_mismatch", fmt.Sprintf("%s height %d: pre-block carries %d transactions for %d proposed hashes", n, pb.Idx, len(pb.txs), len(pb.TxHashes)), n.id)
				return
			}
			for i, t := range pb.txs {
				if t == nil || t.Hash() != pb.TxHashes[i] {
					s.Violate("C02", "preblock_transactions_mismatch", fmt.Sprintf("%s height %d: transaction %d of the pre-block is missing or out of order", n, pb.Idx, i), n.id)
					return
				}
			}
		}
	}
}
