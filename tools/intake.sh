#!/bin/bash
# usage: tools/intake.sh <id> <worktree> <budget_s> <prop> [prop...]
# Confirms a sub-agent's breaking change independently in a fresh scratch copy
# (suite passes with it; demo fails with it; demo passes without it), stores it
# under /verif/seeded/<id>/ and runs the named checks against it.
id=$1; wt=$2; budget=$3; shift 3
S=/verif/seeded/$id
mkdir -p $S
if [ -f $wt/mutation.patch ]; then cp $wt/mutation.patch $S/patch.diff; else ( cd $wt && git diff -- . ":(exclude)*_test.go" > $S/patch.diff ); fi
demo=$(cd $wt && git status --porcelain | grep '^??' | awk '{print $2}' | grep '_test.go$' | head -1)
[ -n "$demo" ] && cp $wt/$demo $S/$(basename $demo).txt
[ -f $wt/MUTATION.md ] && cp $wt/MUTATION.md $S/MUTATION.md
W=/tmp/intake/$id; rm -rf $W; mkdir -p $W
git -C /repo archive HEAD | tar -x -C $W
export GOFLAGS=-mod=mod GOPROXY=off
cd $W && git apply --whitespace=nowarn $S/patch.diff || { echo "INTAKE $id: patch does not apply"; exit 2; }
suite=$(go test -vet=off -count=1 ./... 2>&1 | grep -v '^ok\|no test files' | head -5)
[ -z "$suite" ] && r1=pass || r1="FAIL: $suite"
ddir=$(dirname $demo)
cp $wt/$demo $W/$demo
dname=$(grep -o 'func Test[A-Za-z0-9_]*' $W/$demo | head -1 | sed 's/func //')
r2=$(cd $W/$ddir && go test -vet=off -count=1 -run "^$dname\$" . 2>&1 | tail -1 | cut -c1-60)
git apply -R --whitespace=nowarn $S/patch.diff
r3=$(cd $W/$ddir && go test -vet=off -count=1 -run "^$dname\$" . 2>&1 | tail -1 | cut -c1-60)
echo "INTAKE $id: suite_with_change=[$r1] demo_with_change=[$r2] demo_without_change=[$r3] demo=$demo test=$dname"
cd /; rm -rf $W
VERIF_WORKERS=${VERIF_WORKERS:-8} /verif/tools/trymut.sh seeded_$id $S/patch.diff $budget "$@"
