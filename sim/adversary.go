package verifsim

import (
	"github.com/nspcc-dev/dbft"
)

// Adversary drives the faulty identities that have no honest-code instance
// (FByz) and additionally speaks under the keys of split-brain identities.
// It is omniscient (reads every node's state, sees every payload) but can only
// sign with the private keys it was given, so it cannot forge other
// validators' payloads or signatures - by construction.
type Adversary struct {
	s     *Sim
	keys  []*PrivKey
	made  int
	cache map[advKey]*Payload // equivocation memory: what was told to which faction
	sent  map[advSent]bool
	mode  map[uint32]uint64 // per height: 0 random actions, 1 yes-man, 2 equivocating primary + yes-man
}

// advSent remembers what a faulty identity already told a node in an epoch
// (the strategic modes send each helpful payload once).
type advSent struct {
	ident  int
	target int
	h      uint32
	v      byte
	t      dbft.MessageType
}

type advKey struct {
	ident int
	h     uint32
	v     byte
	t     dbft.MessageType
	grp   int
}

func newAdversary(s *Sim, keys []*PrivKey) *Adversary {
	return &Adversary{s: s, keys: keys, cache: map[advKey]*Payload{}, sent: map[advSent]bool{}, mode: map[uint32]uint64{}}
}

func (a *Adversary) active() bool { return len(a.keys) > 0 && a.s.sc.AdvPM > 0 }

func (a *Adversary) targets() []*Node {
	var l []*Node
	for _, n := range a.s.nodes {
		if n.up && n.d != nil && n.kind != FSplit {
			l = append(l, n)
		}
	}
	return l
}

func (a *Adversary) inject(t *Node, p *Payload, k *PrivKey) {
	s := a.s
	p.sign(k)
	a.made++
	s.authentic = append(s.authentic, p)
	s.fault("adv:" + p.T.String())
	d := s.tape.Range(SAdv, 0, 4) * s.sc.LatBase / 2
	s.after(d, &Event{Kind: EvDeliver, Node: t.id, From: -1, P: p})
}

// headerFor builds the block a node would build for its current proposal.
func headerFor(t *Node) (*Header, bool) {
	d := t.d
	if d == nil || !d.RequestSentOrReceived() || d.TransactionHashes == nil {
		return nil, false
	}
	hs := make([]Hash, len(d.TransactionHashes))
	copy(hs, d.TransactionHashes)
	return &Header{Idx: d.BlockIndex, Prev: d.PrevHash, TS: d.Timestamp, Nonce: d.Nonce, TxHashes: hs}, true
}

func (a *Adversary) act() {
	s := a.s
	tape := s.tape
	if !tape.Chance(SAdv, s.sc.AdvPM, 1000) {
		return
	}
	ts := a.targets()
	if len(ts) == 0 {
		return
	}
	t := ts[tape.Draw(SAdv, uint64(len(ts)))]
	// strategy of the faulty identities at this height: mostly random actions, sometimes the
	// worst case for any quorum weakness - tell every node what it wants to hear
	hh := t.d.BlockIndex
	m, ok := a.mode[hh]
	if !ok {
		m = tape.Draw(SAdv, 4)
		if m == 3 {
			m = 0
		}
		a.mode[hh] = m
		s.fault([]string{"adv:mode_random_actions", "adv:mode_yes_man", "adv:mode_equivocating_primary_yes_man"}[m])
		for k := range a.mode {
			if k+4 < hh {
				delete(a.mode, k)
			}
		}
		if len(a.sent) > 20000 {
			a.sent = map[advSent]bool{}
		}
	}
	if m != 0 {
		a.yesman(ts, m == 2)
		return
	}
	k := a.keys[tape.Draw(SAdv, uint64(len(a.keys)))]
	d := t.d
	h, v := d.BlockIndex, d.ViewNumber
	idx := s.sc.IndexAt(h, k.ID)
	if idx < 0 {
		// not a validator at the target's height: can only replay
		a.replay(t)
		return
	}
	mk := func(typ dbft.MessageType, view byte, body any) *Payload {
		return &Payload{T: typ, H: h, V: view, Idx: uint16(idx), Body: body}
	}
	switch tape.Draw(SAdv, 12) {
	case 0: // matching prepare response
		if pr := d.PreparationPayloads[d.PrimaryIndex]; pr != nil {
			a.inject(t, mk(dbft.PrepareResponseType, v, &PrepResp{Prep: pr.Hash()}), k)
		} else {
			a.replay(t)
		}
	case 1: // valid commit for whatever the target would build
		if hdr, ok := headerFor(t); ok {
			hdr.Final = s.sc.amevAt(h)
			bh := hdr.hash("block")
			a.inject(t, mk(dbft.CommitType, v, &CommitBody{Sig: k.Sign(bh[:])}), k)
		} else {
			// early commit for a proposal the target has not seen: sign something plausible or garbage
			a.inject(t, mk(dbft.CommitType, v, &CommitBody{Sig: k.Sign([]byte("garbage"))}), k)
			s.fault("adv:early_garbage_commit")
		}
	case 2: // valid pre-commit
		if hdr, ok := headerFor(t); ok && s.sc.amevAt(h) {
			ph := hdr.hash("preblock")
			a.inject(t, mk(dbft.PreCommitType, v, &PreCommitBody{D: k.Sign(ph[:])}), k)
		} else if s.sc.AMEV >= 0 {
			a.inject(t, mk(dbft.PreCommitType, v, &PreCommitBody{D: k.Sign([]byte("garbage"))}), k)
		} else {
			a.replay(t)
		}
	case 3: // echo / push change view
		nv := v + 1 + byte(tape.Draw(SAdv, 2))
		a.inject(t, mk(dbft.ChangeViewType, v, &ChView{NewView: nv, Rsn: dbft.CVTimeout, TS: uint64(t.clockNow().UnixNano())}), k)
	case 4: // equivocating primary: a proposal tailored to the target's faction
		if primaryOf(h, v, len(s.sc.ValsAt(h))) == idx {
			a.inject(t, a.proposalFor(t, k, idx, h, v), k)
		} else {
			a.replay(t)
		}
	case 5: // commit with an invalid signature
		a.inject(t, mk(dbft.CommitType, v, &CommitBody{Sig: k.Sign([]byte{byte(tape.Draw(SAdv, 256))})}), k)
		s.fault("adv:invalid_sig_commit")
	case 6: // commit / pre-commit tagged with another view
		ov := byte(tape.Draw(SAdv, 4))
		if hdr, ok := headerFor(t); ok {
			hdr.Final = s.sc.amevAt(h)
			bh := hdr.hash("block")
			a.inject(t, mk(dbft.CommitType, ov, &CommitBody{Sig: k.Sign(bh[:])}), k)
		} else {
			a.inject(t, mk(dbft.CommitType, ov, &CommitBody{Sig: k.Sign([]byte("x"))}), k)
		}
		s.fault("adv:other_view_commit")
	case 7: // response naming another proposal
		var w hasher
		w.str("bogus")
		w.u64(tape.Draw(SAdv, 4))
		a.inject(t, mk(dbft.PrepareResponseType, v, &PrepResp{Prep: w.sum()}), k)
	case 8: // recovery message assembled from arbitrary authentic payloads
		a.inject(t, a.recoveryFor(t, k, idx, h, v), k)
	case 9: // recovery request (makes honest nodes talk)
		a.inject(t, mk(dbft.RecoveryRequestType, v, &RecReq{TS: uint64(t.clockNow().UnixNano())}), k)
	case 10: // payload for a future height/view
		fh := h + uint32(tape.Draw(SAdv, 3))
		fv := v + byte(tape.Draw(SAdv, 3))
		fi := s.sc.IndexAt(fh, k.ID)
		if fi < 0 {
			a.replay(t)
			return
		}
		p := &Payload{T: dbft.CommitType, H: fh, V: fv, Idx: uint16(fi), Body: &CommitBody{Sig: k.Sign([]byte("future"))}}
		if tape.Chance(SAdv, 1, 2) {
			p = &Payload{T: dbft.ChangeViewType, H: fh, V: fv, Idx: uint16(fi), Body: &ChView{NewView: fv + 1, TS: 1}}
		}
		a.inject(t, p, k)
	default:
		a.replay(t)
	}
}

// proposalFor returns (and remembers) the proposal this faulty primary tells
// the target's faction; different factions get different proposals.
func (a *Adversary) proposalFor(t *Node, k *PrivKey, idx int, h uint32, v byte) *Payload {
	s := a.s
	grp := s.group[t.id]
	if s.tape.Chance(SAdv, 1, 4) {
		grp = 2 + int(s.tape.Draw(SAdv, 2)) // a private variant
	}
	key := advKey{k.ID, h, v, dbft.PrepareRequestType, grp}
	if p, ok := a.cache[key]; ok {
		return p.Clone()
	}
	var hs []Hash
	pool := sortedHashes(t.pool)
	for _, tx := range pool {
		if len(hs) >= s.sc.MaxTxPerBlock {
			break
		}
		if s.tape.Chance(SAdv, 1, 2) {
			hs = append(hs, tx.Hash())
		}
	}
	if s.tape.Chance(SAdv, 1, 3) {
		// a transaction that exists but that this target does not hold yet: it will ask
		// for it, and whatever reaches it meanwhile meets a node with an incomplete proposal
		for _, tx := range sortedHashes(s.allTx) {
			if _, has := t.pool[tx.Hash()]; !has && !tx.Invalid && len(hs) < s.sc.MaxTxPerBlock+1 {
				hs = append(hs, tx.Hash())
				s.fault("adv:proposal_with_tx_missing_at_target")
				break
			}
		}
	}
	if s.sc.TxMissing && s.tape.Chance(SAdv, 1, 4) {
		var w hasher
		w.str("nonexistent-tx")
		w.u64(uint64(a.made))
		hs = append(hs, w.sum())
		s.fault("adv:proposal_with_unknown_tx")
	}
	if hs == nil {
		hs = []Hash{}
	}
	ts := t.tip().TS + s.sc.TSInc*(1+s.tape.Draw(SAdv, 5))
	if s.tape.Chance(SAdv, 1, 4) {
		// nothing in the protocol stops a faulty primary from signing an odd timestamp (the
		// application's policy callback may): equal to or behind the previous block's, not a
		// multiple of the increment, far ahead.  Whatever it is, the block that honest nodes
		// accept carries exactly the proposed value (C02).
		prev := t.tip().TS
		switch s.tape.Draw(SAdv, 5) {
		case 0:
			ts = prev
		case 1:
			if back := s.sc.TSInc * (1 + s.tape.Draw(SAdv, 100000)); back < prev {
				ts = prev - back
			} else {
				ts = 1
			}
		case 2:
			ts = prev + 1 + s.tape.Draw(SAdv, s.sc.TSInc+1)
		case 3:
			ts = prev + s.sc.TSInc*(1000+s.tape.Draw(SAdv, 1000000))
		case 4:
			if prev > 0 {
				ts = prev - 1
			}
		}
		s.fault("adv:proposal_with_odd_timestamp")
	}
	p := &Payload{T: dbft.PrepareRequestType, H: h, V: v, Idx: uint16(idx),
		Body: &PrepReq{TS: ts, Nnc: uint64(grp) + 1000*uint64(a.made), Hashes: hs}}
	p.sign(k)
	a.cache[key] = p
	s.fault("adv:equivocating_proposal")
	return p.Clone()
}

func (a *Adversary) replay(t *Node) {
	s := a.s
	if len(s.authentic) == 0 {
		return
	}
	// bias towards recent payloads
	n := len(s.authentic)
	w := n
	if w > 64 && s.tape.Chance(SAdv, 3, 4) {
		w = 64
	}
	p := s.authentic[n-1-int(s.tape.Draw(SAdv, uint64(w)))]
	s.fault("adv:replay")
	d := s.tape.Range(SAdv, 0, 4) * s.sc.LatBase / 2
	s.after(d, &Event{Kind: EvDeliver, Node: t.id, From: -1, P: p})
}

func (a *Adversary) recoveryFor(t *Node, k *PrivKey, idx int, h uint32, v byte) *Payload {
	s := a.s
	rm := &RecMsg{}
	view := v + byte(s.tape.Draw(SAdv, 3))
	if s.tape.Chance(SAdv, 1, 3) && view > 0 {
		view--
	}
	cnt := 0
	for i := len(s.authentic) - 1; i >= 0 && cnt < 24; i-- {
		p := s.authentic[i]
		if p.H != h || p.T == dbft.RecoveryMessageType || p.T == dbft.RecoveryRequestType {
			continue
		}
		if !s.tape.Chance(SAdv, 2, 3) {
			continue
		}
		if p.T == dbft.PrepareRequestType && rm.PrepReqP != nil {
			continue
		}
		rm.AddPayload(p.Clone())
		cnt++
	}
	return &Payload{T: dbft.RecoveryMessageType, H: h, V: view, Idx: uint16(idx), Body: rm}
}

// yesman: every faulty identity helps every node along whatever that node currently
// holds - a matching response, a valid (pre)commit for the block the node would build,
// an echo of its change-view request - and, as primary (split mode), proposes something
// different to every faction.  Each payload is sent once per (identity, node, epoch).
func (a *Adversary) yesman(ts []*Node, split bool) {
	s := a.s
	budget := 6
	start := int(s.tape.Draw(SAdv, uint64(len(ts))))
	for i := 0; i < len(ts) && budget > 0; i++ {
		t := ts[(start+i)%len(ts)]
		d := t.d
		if d == nil || d.BlockSent() {
			continue
		}
		h, v := d.BlockIndex, d.ViewNumber
		nv := len(s.sc.ValsAt(h))
		prim := primaryOf(h, v, nv)
		for _, k := range a.keys {
			if budget <= 0 {
				break
			}
			idx := s.sc.IndexAt(h, k.ID)
			if idx < 0 {
				continue
			}
			once := func(typ dbft.MessageType) bool {
				key := advSent{k.ID, t.id, h, v, typ}
				if a.sent[key] {
					return false
				}
				a.sent[key] = true
				return true
			}
			mk := func(typ dbft.MessageType, body any) *Payload {
				return &Payload{T: typ, H: h, V: v, Idx: uint16(idx), Body: body}
			}
			q := d.PreparationPayloads[d.PrimaryIndex]
			switch {
			case q == nil && idx == prim && split:
				if once(dbft.PrepareRequestType) {
					a.inject(t, a.proposalFor(t, k, idx, h, v), k)
					budget--
				}
			case q != nil && q.Type() == dbft.PrepareRequestType:
				if idx != prim && once(dbft.PrepareResponseType) {
					a.inject(t, mk(dbft.PrepareResponseType, &PrepResp{Prep: q.Hash()}), k)
					budget--
				}
				if hdr, ok := headerFor(t); ok && len(d.TransactionHashes) == len(d.Transactions) {
					if s.sc.amevAt(h) {
						if once(dbft.PreCommitType) {
							ph := hdr.hash("preblock")
							a.inject(t, mk(dbft.PreCommitType, &PreCommitBody{D: k.Sign(ph[:])}), k)
							budget--
						}
					}
					if once(dbft.CommitType) {
						hdr.Final = s.sc.amevAt(h)
						bh := hdr.hash("block")
						a.inject(t, mk(dbft.CommitType, &CommitBody{Sig: k.Sign(bh[:])}), k)
						budget--
					}
				}
			}
			if d.ViewChanging() && once(dbft.ChangeViewType) {
				a.inject(t, mk(dbft.ChangeViewType, &ChView{NewView: v + 1, Rsn: dbft.CVTimeout, TS: uint64(t.clockNow().UnixNano())}), k)
				budget--
			}
		}
	}
}
