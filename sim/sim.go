package verifsim

import (
	"container/heap"
	"fmt"
	"os"
	"sort"
	"time"

	"github.com/nspcc-dev/dbft"
)

type EvKind uint8

const (
	EvDeliver EvKind = iota
	EvTimer
	EvAppReset
	EvTxSupply
	EvTxArrive
	EvNewTxNotify
	EvSyncPoll
	EvSyncReply
	EvBoot
	EvRestart
	EvPartStart
	EvPartHeal
	EvClockJump
	EvAdv
	EvWorkload
	EvProbe
	EvCustom
)

var evNames = [...]string{"deliver", "timer", "app_reset", "tx_supply", "tx_arrive", "new_tx_notify", "sync_poll",
	"sync_reply", "boot", "restart", "part_start", "part_heal", "clock_jump", "adversary", "workload", "probe", "custom"}

type Event struct {
	At   int64
	Seq  uint64
	Kind EvKind
	Node int
	From int
	P    *Payload
	Gen  uint64
	Inc  int
	Tx   *Tx
	Blks []*Block
	Fn   func()
	Aux  int64
}

type evHeap []*Event

func (h evHeap) Len() int { return len(h) }
func (h evHeap) Less(i, j int) bool {
	if h[i].At != h[j].At {
		return h[i].At < h[j].At
	}
	return h[i].Seq < h[j].Seq
}
func (h evHeap) Swap(i, j int) { h[i], h[j] = h[j], h[i] }
func (h *evHeap) Push(x any)   { *h = append(*h, x.(*Event)) }
func (h *evHeap) Pop() any {
	o := *h
	n := len(o)
	x := o[n-1]
	o[n-1] = nil
	*h = o[:n-1]
	return x
}

type OpKind uint8

const (
	OpStart OpKind = iota
	OpReset
	OpReceive
	OpTimeout
	OpTx
	OpNewTx
)

var opNames = [...]string{"Start", "Reset", "OnReceive", "OnTimeout", "OnTransaction", "OnNewTransaction"}

type OutKind uint8

const (
	OBroadcast OutKind = iota
	OTimerReset
	OTimerExtend
	OProcessBlock
	OProcessPreBlock
	ORequestTx
	OGetVerified
	OVerifyBlock
	OVerifyPreBlock
	ONewBlock
	ONewPreBlock
	OSign
	OSetData
	OSubscribe
	OStopTxFlow
	ONewPrepReq
	OClockRead
	OGetTx
)

var outNames = [...]string{"Broadcast", "Timer.Reset", "Timer.Extend", "ProcessBlock", "ProcessPreBlock", "RequestTx",
	"GetVerified", "VerifyBlock", "VerifyPreBlock", "NewBlockFromContext", "NewPreBlockFromContext", "Block.Sign",
	"PreBlock.SetData", "SubscribeForTxs", "StopTxFlow", "NewPrepareRequest", "Timer.Now", "GetTx"}

// Out is one thing the library did (a callback it invoked) during an API call.
type Out struct {
	Kind   OutKind
	P      *Payload      // OBroadcast
	H      uint32        // timer height / block index
	V      byte          // timer view
	D      time.Duration // timer duration
	Hdr    *Header       // block-ish callbacks
	Hash   Hash          // block hash
	Hashes []Hash        // RequestTx / GetVerified / NewPrepReq
	OK     bool          // verdict returned to the library
	TS     uint64        // NewPrepReq ts / clock reading
	Nonce  uint64
	BI     uint32 // node's BlockIndex / ViewNumber when the callback ran
	VN     byte
}

// Step is one API call into one node with everything it caused.
type Step struct {
	Node   int
	Inc    int
	Seq    uint64
	At     int64
	Op     OpKind
	P      *Payload // OpReceive
	Tx     *Tx      // OpTx
	TH     uint32   // OpTimeout
	TV     byte
	Arg    uint64 // OpStart/OpReset: timestamp
	PreBI  uint32
	PreV   byte
	PreDec bool // decided (BlockSent) before the call
	PostBI uint32
	PostV  byte
	Outs   []Out
	Panic  any
	Probe  bool // injected by the C11 prober (not part of the organic run)
	Evicted bool // OpNewTx: the notified transaction has left the pool again (the verified pool is empty in this call)
}

// Oracle observes a run.  Hooks are called synchronously by the kernel.
type Oracle interface {
	Name() string
	BeforeCall(n *Node, st *Step)
	OnOut(n *Node, st *Step, o *Out) // inside the callback: node tables are readable
	AfterCall(n *Node, st *Step)
	AtEnd(s *Sim)
}

type BaseOracle struct{}

func (BaseOracle) BeforeCall(*Node, *Step)  {}
func (BaseOracle) OnOut(*Node, *Step, *Out) {}
func (BaseOracle) AfterCall(*Node, *Step)   {}
func (BaseOracle) AtEnd(*Sim)               {}

type Violation struct {
	Prop   string `json:"property"`
	Class  string `json:"class"`
	Detail string `json:"detail"`
	Seq    uint64 `json:"seq"`
	At     int64  `json:"at_ns"`
	Node   int    `json:"node"`
}

type Stats struct {
	Events     int
	Calls      int
	SimTime    int64
	Fault      map[string]int
	Probe      map[string]int
	Decided    int // ProcessBlock successes on honest nodes
	MaxHeight  uint32
	Truncated  string
	Panics     int
	SchedSig   uint64
	TraceHash  uint64
	StateSigs  map[uint64]struct{}
	Exercised  bool // the armed oracle's non-triviality rule was met
	HeightsDecided int
	ExNote     map[string]int
}

type Sim struct {
	knownViol *Violation // first hit of a known-finding class in a run that was allowed to continue

	trapAt int64 // experiment knob VERIF_EXP_TRAP

	sc    *Scenario
	tape  *Tape
	now   int64
	seq   uint64
	q     evHeap
	nodes []*Node
	kr    *Keyring
	pubs  []*PubKey // per identity
	adv   *Adversary

	oracles []Oracle
	viol    *Violation
	st      Stats
	record  bool
	trace   []string

	genesis *Block
	allTx   map[Hash]*Tx
	nextTx  uint64

	// network state
	group   []int  // per node: faction
	cut     []bool // per node: fully isolated
	cutX    bool   // cross-faction traffic cut
	slowX   int64  // cross-faction extra delay
	gstDone bool

	deadTx    map[Hash]bool // transactions evicted from every pool
	authentic []*Payload // every payload ever broadcast by anyone (adversary's library)
	trigSeen  map[hv]bool // event-triggered faults: epochs whose first commit / change view was already seen
	accepts   map[uint32][]acceptRec
	manual    bool // scripts: broadcasts are recorded but not delivered
	stopped   bool
	custom    func(ev *Event)
	doneFn    func() bool
	gstFn     func()
	probeFn   func()
	cur       *Node // node whose library instance is executing a call right now
	heightFn  func(h uint32)
	noDone    bool
}

func NewSim(sc *Scenario, t *Tape) *Sim {
	s := &Sim{sc: sc, tape: t, allTx: map[Hash]*Tx{}, deadTx: map[Hash]bool{}}
	s.st.Fault = map[string]int{}
	s.st.Probe = map[string]int{}
	s.st.StateSigs = map[uint64]struct{}{}
	s.st.ExNote = map[string]int{}
	total := sc.NIdent + sc.NObs
	s.kr = NewKeyring(0x5eed, total)
	s.pubs = make([]*PubKey, total)
	for i := range s.pubs {
		s.pubs[i] = s.kr.Pub(i)
	}
	s.genesis = &Block{Header: Header{Idx: sc.Start, TS: uint64(sc.Epoch0) / sc.TSInc * sc.TSInc, TxHashes: []Hash{}}}
	if sc.Start > 0 {
		var w hasher
		w.str("prev")
		w.u32(sc.Start)
		s.genesis.Prev = w.sum()
	}
	// nodes
	for id := 0; id < total; id++ {
		kind := FHonest
		if id < sc.NIdent {
			kind = sc.Fault[id]
		}
		switch kind {
		case FSilent, FByz:
			// no library instance
		case FSplit:
			for b := 0; b < sc.Brains; b++ {
				s.addNode(id, b, kind)
			}
		default:
			s.addNode(id, 0, kind)
		}
	}
	s.group = make([]int, len(s.nodes))
	s.cut = make([]bool, len(s.nodes))
	var fp []*PrivKey
	for id := 0; id < sc.NIdent; id++ {
		if sc.Fault[id] == FSplit || sc.Fault[id] == FByz {
			fp = append(fp, s.kr.Priv(id))
		}
	}
	s.adv = newAdversary(s, fp)
	return s
}

func (s *Sim) addNode(ident, brain int, kind FaultKind) *Node {
	n := &Node{s: s, id: len(s.nodes), ident: ident, brain: brain, kind: kind}
	n.priv = s.kr.Priv(ident)
	n.pub = s.pubs[ident]
	n.honest = kind == FHonest
	if ident < s.sc.NIdent {
		n.flagWO = s.sc.FlagWO[ident]
	}
	n.ledger = []*Block{s.genesis}
	n.pool = map[Hash]*Tx{}
	n.everHad = map[Hash]bool{}
	s.nodes = append(s.nodes, n)
	return n
}

func (s *Sim) AddOracle(o Oracle) { s.oracles = append(s.oracles, o) }

func (s *Sim) push(ev *Event) {
	s.seq++
	ev.Seq = s.seq
	if ev.At < s.now {
		ev.At = s.now
	}
	heap.Push(&s.q, ev)
}

func (s *Sim) after(d int64, ev *Event) {
	ev.At = s.now + d
	s.push(ev)
}

// KnownClasses: violation classes of reproduced known findings (set by the worker).  An oracle
// that can go on judging after such a hit calls ViolateKnown, which records the first hit and
// lets the run continue; the hit becomes the run's result only if nothing else is found.
var KnownClasses = map[string]bool{}

func (s *Sim) ViolateKnown(prop, class, detail string, node int) bool {
	if !KnownClasses[class] {
		s.Violate(prop, class, detail, node)
		return false
	}
	if s.knownViol == nil {
		s.knownViol = &Violation{Prop: prop, Class: class, Detail: detail, Seq: s.seq, At: s.now, Node: node}
	}
	s.note("known_finding_hit_run_continued")
	return true
}

func (s *Sim) Violate(prop, class, detail string, node int) {
	if s.viol != nil {
		return
	}
	s.viol = &Violation{Prop: prop, Class: class, Detail: detail, Seq: s.seq, At: s.now, Node: node}
	s.tracef("VIOLATION %s %s: %s", prop, class, detail)
}

func (s *Sim) fault(name string) { s.st.Fault[name]++ }
func (s *Sim) probe(name string) { s.st.Probe[name]++ }
func (s *Sim) note(name string) {
	s.st.ExNote[name]++
	if expTrap != "" && name == expTrap && s.viol == nil {
		// experiment knob (never set by ./check): stop at the first occurrence of a note so
		// that the schedule leading to it can be studied as a replay file
		s.trapAt = s.now
	}
}

var expTrap = os.Getenv("VERIF_EXP_TRAP")

func (s *Sim) tracef(format string, a ...any) {
	if !s.record {
		return
	}
	s.trace = append(s.trace, fmt.Sprintf("t=%.6fs #%d ", float64(s.now)/1e9, s.st.Events)+fmt.Sprintf(format, a...))
}

func (s *Sim) foldTrace(vals ...uint64) {
	h := s.st.TraceHash
	for _, v := range vals {
		h = mix64(h, v)
	}
	s.st.TraceHash = h
}

func h64(h Hash) uint64 {
	return uint64(h[0]) | uint64(h[1])<<8 | uint64(h[2])<<16 | uint64(h[3])<<24 | uint64(h[4])<<32 | uint64(h[5])<<40 | uint64(h[6])<<48 | uint64(h[7])<<56
}

// ---------------------------------------------------------------- run loop

func (s *Sim) installMapPerm() {
	sc := s.sc
	dbft.VerifMapPerm = func(n int) []int {
		switch sc.MapOrder {
		case 1:
			p := make([]int, n)
			for i := range p {
				p[i] = n - 1 - i
			}
			return p
		case 2:
			st := SMap
			if s.cur != nil {
				st = s.cur.stream(SMap)
			}
			return s.tape.Perm(st, n)
		}
		return nil
	}
}

func (s *Sim) Run() {
	s.installMapPerm()
	defer func() { dbft.VerifMapPerm = nil }()

	s.setup()
	s.loop()
}

// loop processes the event queue until the run is complete or capped.
func (s *Sim) loop() {
	sc := s.sc
	for s.q.Len() > 0 && s.viol == nil && !s.stopped {
		ev := heap.Pop(&s.q).(*Event)
		if ev.At > sc.MaxTime {
			s.st.Truncated = "max_time"
			break
		}
		if s.st.Events >= sc.MaxEvents {
			s.st.Truncated = "max_events"
			break
		}
		if ev.At > s.now { // (a hand-delivered prefix may have moved the clock past queued events)
			s.now = ev.At
		}
		s.st.Events++
		s.st.Probe["ev:"+evNames[ev.Kind]]++
		s.dispatch(ev)
		if s.probeFn != nil {
			s.probeFn()
		}
		if !s.noDone && s.done() {
			break
		}
	}
	s.st.SimTime = s.now
	if s.st.MaxHeight > sc.Start {
		s.st.HeightsDecided = int(s.st.MaxHeight - sc.Start)
	}
	if s.viol == nil {
		for _, o := range s.oracles {
			o.AtEnd(s)
			if s.viol != nil {
				break
			}
		}
	}
	if s.viol == nil && s.knownViol != nil {
		s.viol = s.knownViol
	}
	if s.trapAt > 0 && s.viol == nil && len(s.oracles) > 0 {
		s.Violate(s.oracles[0].Name(), "exp_trap", fmt.Sprintf("note %q at t=%.3f s", expTrap, float64(s.trapAt)/1e9), 0)
	}
}

func (s *Sim) done() bool {
	if s.doneFn != nil {
		return s.doneFn()
	}
	target := s.sc.Start + uint32(s.sc.Heights)
	if s.st.MaxHeight > target {
		return true // somebody is already past the target: stragglers are not waited for
	}
	any := false
	for _, n := range s.nodes {
		if !n.honest || n.special {
			continue
		}
		any = true
		if n.tip().Idx < target {
			return false
		}
	}
	return any
}

func (s *Sim) setup() {
	sc := s.sc
	// factions
	if sc.Factions {
		for i, n := range s.nodes {
			if n.kind == FSplit {
				s.group[i] = n.brain % 2
			} else {
				s.group[i] = int(s.tape.Draw(SFault, 2))
			}
		}
	}
	// clock skew
	for _, n := range s.nodes {
		if sc.ClockSkew {
			n.skew = s.tape.Range(SFault, 0, 20) * int64(sc.TPB) / 10 * (1 - 2*int64(s.tape.Draw(SFault, 2)))
		}
	}
	// boots: in tape order at t=0 (sync) or staggered
	order := s.tape.Perm(SApp, len(s.nodes))
	for _, i := range order {
		var d int64
		if sc.Family != "sync" && sc.Family != "pair" && sc.GST != 0 {
			// (a message that arrives before Start has no instance to receive it:
			// with synchrony from t=0 everybody boots at t=0, before the first delivery)
			d = s.tape.Range(SApp, 0, 3) * sc.LatBase
		}
		s.after(d, &Event{Kind: EvBoot, Node: i})
	}
	if sc.SyncEvery > 0 {
		for i := range s.nodes {
			s.after(sc.SyncEvery+int64(i), &Event{Kind: EvSyncPoll, Node: i})
		}
	}
	if sc.TxRate > 0 {
		s.after(0, &Event{Kind: EvWorkload})
	}
	if sc.Partitions || sc.Factions {
		s.after(s.tape.Range(SFault, 0, 8)*int64(sc.TPB)/4, &Event{Kind: EvPartStart})
	}
	if sc.AdvPM > 0 && s.adv.active() {
		s.after(sc.LatBase, &Event{Kind: EvAdv})
	}
	if sc.ClockJumps {
		s.after(s.tape.Range(SFault, 1, 8)*int64(sc.TPB)/2, &Event{Kind: EvClockJump})
	}
	if sc.GST > 0 {
		s.push(&Event{At: sc.GST, Kind: EvPartHeal, Aux: 1})
	}
	if sc.HugePool > 0 {
		for i := 0; i < sc.HugePool; i++ {
			s.nextTx++
			tx := NewTx(s.nextTx, false)
			s.allTx[tx.Hash()] = tx
			for _, n := range s.nodes {
				n.pool[tx.Hash()] = tx
				n.everHad[tx.Hash()] = true
			}
		}
		s.fault("huge_verified_pool")
	}
	if sc.WOFlipIdent > 0 {
		s.after(sc.WOFlipAt, &Event{Kind: EvCustom, Fn: func() {
			for _, n := range s.nodes {
				if n.ident == sc.WOFlipIdent-1 && !n.flagWO {
					n.flagWO = true
					s.fault("watch_only_flag_set_while_running")
					s.tracef("%s WATCH-ONLY FLAG SET", n)
				}
			}
		}})
	}
}

func (s *Sim) dispatch(ev *Event) {
	switch ev.Kind {
	case EvBoot:
		n := s.nodes[ev.Node]
		if !n.up && !n.neverBoot {
			n.boot()
		}
	case EvRestart:
		n := s.nodes[ev.Node]
		if !n.up {
			s.fault("restart")
			n.boot()
		}
	case EvDeliver:
		s.deliver(ev)
	case EvTimer:
		n := s.nodes[ev.Node]
		if !n.up || ev.Inc != n.inc || n.tm == nil || ev.Gen != n.tm.gen {
			return
		}
		if s.deferIfStalled(n, ev) {
			return
		}
		n.tm.consumed = true
		n.tm.armed = false
		h, v := n.tm.h, n.tm.v
		if n.d != nil && n.tip().Idx+1 > n.d.BlockIndex {
			// the ledger has moved on (block sync) and the application has not called Reset yet:
			// the live callbacks already answer for the next height
			s.note("timeout_while_ledger_ahead_of_library")
			if s.sc.MaxTPB > 0 && n.d.IsPrimary() && v == 0 && !n.d.RequestSentOrReceived() && s.sc.TPBAt(n.tip().Idx+1) != s.sc.TPBAt(n.d.BlockIndex) {
				s.note("primary_timeout_while_ledger_ahead_and_block_time_changed")
			}
		}
		n.call(&Step{Op: OpTimeout, TH: h, TV: v}, func() { n.d.OnTimeout(h, v) })
	case EvAppReset:
		n := s.nodes[ev.Node]
		if !n.up || ev.Inc != n.inc {
			return
		}
		if s.deferIfStalled(n, ev) {
			return
		}
		n.appReset()
	case EvTxSupply:
		n := s.nodes[ev.Node]
		if !n.up || ev.Inc != n.inc {
			return
		}
		if s.deferIfStalled(n, ev) {
			return
		}
		if s.sc.HonourStop && ev.Gen != n.txGen {
			s.fault("open_tx_request_forgotten_after_StopTxFlow")
			return
		}
		tx := ev.Tx
		// a requested transaction that is in the chain by the time the peer's answer arrives
		// (or that was evicted everywhere) does not re-enter the pool and is not handed over
		if s.deadTx[tx.Hash()] || n.inChain(tx.Hash()) {
			return
		}
		n.pool[tx.Hash()] = tx
		n.everHad[tx.Hash()] = true
		n.call(&Step{Op: OpTx, Tx: tx}, func() { n.d.OnTransaction(tx) })
	case EvTxArrive:
		n := s.nodes[ev.Node]
		if !n.up {
			return
		}
		n.txArrive(ev.Tx)
	case EvSyncPoll:
		s.syncPoll(ev)
	case EvSyncReply:
		n := s.nodes[ev.Node]
		if !n.up || ev.Inc != n.inc {
			return
		}
		n.syncApply(ev.Blks)
	case EvPartStart:
		s.partStart()
	case EvPartHeal:
		if ev.Aux == 1 {
			s.atGST()
		}
		s.partHeal()
	case EvClockJump:
		n := s.nodes[s.tape.Draw(SFault, uint64(len(s.nodes)))]
		d := s.tape.Range(SFault, 1, 12) * int64(s.sc.TPB) / 4
		if s.tape.Chance(SFault, 1, 2) {
			d = -d
		}
		n.jump += d
		s.fault("clock_jump")
		s.tracef("%s CLOCK JUMP %+.3fs", n, float64(d)/1e9)
		s.after(s.tape.Range(SFault, 1, 8)*int64(s.sc.TPB)/2, &Event{Kind: EvClockJump})
	case EvAdv:
		s.adv.act()
		if s.adv.active() {
			s.after(int64(s.sc.TPB)/40+s.tape.Range(SAdv, 0, 20)*int64(s.sc.TPB)/200, &Event{Kind: EvAdv})
		}
	case EvWorkload:
		s.workload()
	case EvCustom:
		if ev.Fn != nil {
			ev.Fn()
		} else if s.custom != nil {
			s.custom(ev)
		}
	}
}

func (s *Sim) deferIfStalled(n *Node, ev *Event) bool {
	if n.stallUntil > s.now {
		ev.At = n.stallUntil
		s.push(ev)
		return true
	}
	return false
}

// ---------------------------------------------------------------- network

func (s *Sim) postGST() bool { return s.sc.GST >= 0 && s.now >= s.sc.GST }

// linked says whether traffic from node a reaches node b right now.
func (s *Sim) linked(a, b *Node) bool {
	if a.ident == b.ident {
		return false // brains of one identity do not talk to each other
	}
	if s.cut[a.id] || s.cut[b.id] {
		return false
	}
	// a split brain is wired to its own faction only (plus other faulty nodes)
	if a.kind == FSplit && b.kind != FSplit && s.sc.Factions && s.group[a.id] != s.group[b.id] {
		return false
	}
	if b.kind == FSplit && a.kind != FSplit && s.sc.Factions && s.group[a.id] != s.group[b.id] {
		return false
	}
	if s.cutX && a.kind != FSplit && b.kind != FSplit && s.group[a.id] != s.group[b.id] {
		return false
	}
	return true
}

func (s *Sim) latency(a, b *Node, st Stream) int64 {
	sc := s.sc
	if s.postGST() {
		d := sc.Delta
		if d <= 0 {
			d = sc.LatBase + sc.LatJitter
		}
		if d <= 0 {
			return 0 // a zero-latency network: delivered at the very instant it was sent
		}
		return 1 + s.tape.Range(st, 0, d-1)
	}
	l := sc.LatBase
	if sc.LatJitter > 0 {
		l += s.tape.Range(st, 0, 20) * sc.LatJitter / 20
	}
	if sc.FastIdent > 0 && b.ident == sc.FastIdent-1 && b.kind == FAmnesia && b.inc <= 1 {
		return 1 + l/8
	}
	if sc.HeavyTail && s.tape.Chance(st, 1, 16) {
		l += s.tape.Range(st, 1, 40) * int64(sc.TPB) / 4
		s.fault("heavy_tail_delay")
	}
	if s.slowX > 0 && s.group[a.id] != s.group[b.id] && a.kind != FSplit && b.kind != FSplit {
		l += s.slowX
		s.fault("cross_faction_slow")
	}
	return l
}

// retransmission: the identity of n has broadcast this very payload (same type, height, view,
// index and content) before - possibly in an earlier incarnation.  The conditions for sending
// a vote are judged when it is first sent; sending the identical payload again - after this
// incarnation got it back from its peers - is C03's matter.
func (s *Sim) retransmission(n *Node, p *Payload) bool {
	if !n.facts.heard[p.Hash()] {
		return false // this incarnation did not get the vote back from anybody
	}
	for _, a := range s.authentic {
		if a != p && a.T == p.T && a.H == p.H && a.V == p.V && a.Idx == p.Idx && a.sender >= 0 && a.sender < len(s.nodes) && s.nodes[a.sender].ident == n.ident && a.Hash() == p.Hash() {
			return true
		}
	}
	return false
}

// send fans a payload out from node a to every other node.
func (s *Sim) send(a *Node, p *Payload) {
	p.sender = a.id
	s.authentic = append(s.authentic, p)
	if s.manual {
		return
	}
	s.triggered(a, p)
	limit := -1
	if a.crashAfterSends >= 0 {
		limit = a.crashAfterSends
	}
	sent := 0
	for _, b := range s.nodes {
		if b.id == a.id {
			continue
		}
		if limit >= 0 && sent >= limit {
			a.crashing = true
			s.fault("crash_during_broadcast")
			break
		}
		st := SNet
		if a.special || b.special {
			st = SSpecial
		}
		s.sendTo(a, b, p, st)
		sent++
	}
}

// triggered places a fault exactly where in-flight state was just created: at the first
// (pre)commit of a height and at the first change-view request of a view.
func (s *Sim) triggered(a *Node, p *Payload) {
	if !s.sc.TriggerCut || s.postGST() {
		return
	}
	var key hv
	switch p.T {
	case dbft.CommitType, dbft.PreCommitType:
		key = hv{p.H, 200}
	case dbft.ChangeViewType:
		key = hv{p.H, p.V}
	default:
		return
	}
	if s.trigSeen == nil {
		s.trigSeen = map[hv]bool{}
	}
	if own := (hv{p.H, byte(201 + a.id%50)}); key.v == 200 && a.kind == FAmnesia && a.crashAfterSends < 0 && !s.trigSeen[own] {
		s.trigSeen[own] = true
		if s.tape.Chance(SFault, 1, 2) {
			// black-out: whatever is in flight is lost, the sender dies in the middle of this
			// very broadcast and comes back with empty state while the others sort it out
			for i := range s.cut {
				s.cut[i] = true
			}
			a.crashAfterSends = int(s.tape.Draw(SFault, uint64(len(s.nodes))))
			s.fault("trigger:blackout_and_crash_sender")
			s.after(s.tape.Range(SFault, 1, 24)*int64(s.sc.TPB)/4, &Event{Kind: EvPartHeal})
			return
		}
	}
	if s.trigSeen[key] {
		return
	}
	s.trigSeen[key] = true
	if !s.tape.Chance(SFault, 1, 3) {
		return
	}
	dur := s.tape.Range(SFault, 1, 24) * int64(s.sc.TPB) / 4
	switch s.tape.Draw(SFault, 3) {
	case 0: // the sender is cut off right now: nobody (or only some) gets this very payload
		s.cut[a.id] = true
		s.fault("trigger:isolate_sender")
	case 1: // everybody else is cut off from each other
		s.cutX = s.sc.Factions
		if !s.cutX {
			for i := range s.cut {
				if i != a.id && s.tape.Chance(SFault, 1, 2) {
					s.cut[i] = true
				}
			}
		}
		s.fault("trigger:cut_others")
	case 2: // the sender's event loop stalls right after the send
		a.stallUntil = s.now + dur
		s.fault("trigger:stall_sender")
		return
	}
	s.after(dur, &Event{Kind: EvPartHeal})
}

func (s *Sim) sendTo(a, b *Node, p *Payload, st Stream) {
	sc := s.sc
	if !s.linked(a, b) {
		s.fault("partition_drop")
		return
	}
	if !s.postGST() && sc.DropPM > 0 && s.tape.Chance(st, sc.DropPM, 1000) {
		s.fault("drop")
		return
	}
	l := s.latency(a, b, st)
	s.after(l, &Event{Kind: EvDeliver, Node: b.id, From: a.id, P: p})
	if sc.DupPM > 0 && s.tape.Chance(st, sc.DupPM, 1000) {
		s.fault("duplicate")
		k := 1 + int(s.tape.Draw(st, 2))
		for i := 0; i < k; i++ {
			s.after(l+s.tape.Range(st, 0, 10)*(sc.LatBase+sc.LatJitter), &Event{Kind: EvDeliver, Node: b.id, From: a.id, P: p})
		}
	}
}

func (s *Sim) deliver(ev *Event) {
	n := s.nodes[ev.Node]
	if !n.up {
		s.fault("deliver_to_down_node")
		return
	}
	if ev.From >= 0 && s.cut[ev.Node] {
		s.fault("partition_drop")
		return
	}
	if s.deferIfStalled(n, ev) {
		return
	}
	p := ev.P.Clone()
	// network layer of the application: payloads with a bad witness never reach the library
	vals := n.valsPub(p.H)
	if int(p.Idx) < len(vals) && !witnessOK(p, vals) {
		s.fault("bad_witness_dropped")
		return
	}
	n.call(&Step{Op: OpReceive, P: p}, func() { n.d.OnReceive(p) })
}

func (s *Sim) partStart() {
	sc := s.sc
	if s.postGST() {
		return
	}
	dur := s.tape.Range(SFault, 1, 40) * int64(sc.TPB) / 4
	mode := s.tape.Draw(SFault, 4)
	switch {
	case sc.Factions && mode <= 1:
		s.cutX = true
		s.fault("faction_cut")
	case sc.Factions && mode == 2:
		s.slowX = s.tape.Range(SFault, 1, 16) * int64(sc.TPB) / 2
		s.fault("faction_slow")
	default:
		if !sc.Partitions {
			s.cutX = sc.Factions
			break
		}
		k := 0
		for i := range s.nodes {
			if s.tape.Chance(SFault, 1, 3) {
				s.cut[i] = true
				k++
			}
		}
		if k > 0 {
			s.fault("isolate_nodes")
		}
	}
	never := sc.GST < 0 && s.tape.Chance(SFault, 1, 10)
	if !never {
		s.after(dur, &Event{Kind: EvPartHeal})
	} else {
		s.fault("partition_never_heals")
	}
}

// atGST: faults stop here; oracles that need a snapshot hook in through gstFn.
func (s *Sim) atGST() {
	s.tracef("GST reached: no new faults, latency <= %.3f ms", float64(s.sc.Delta)/1e6)
	for _, n := range s.nodes {
		n.stallUntil = 0
	}
	if s.gstFn != nil {
		s.gstFn()
	}
}

func (s *Sim) partHeal() {
	s.cutX = false
	s.slowX = 0
	for i := range s.cut {
		s.cut[i] = false
	}
	s.fault("heal")
	if !s.postGST() {
		s.after(s.tape.Range(SFault, 1, 24)*int64(s.sc.TPB)/4, &Event{Kind: EvPartStart})
	}
}

// ---------------------------------------------------------------- ledger sync

func (s *Sim) syncPoll(ev *Event) {
	n := s.nodes[ev.Node]
	s.after(s.sc.SyncEvery, &Event{Kind: EvSyncPoll, Node: ev.Node})
	if !n.up {
		return
	}
	st := SApp
	if n.special {
		st = SSpecial
	}
	// pick a peer
	cands := make([]*Node, 0, len(s.nodes))
	for _, m := range s.nodes {
		if m.id != n.id && m.up && !m.special && m.kind != FSplit {
			cands = append(cands, m)
		}
	}
	if len(cands) == 0 {
		return
	}
	// (rotating start, so that a tape of zeros - the shrinker's favourite - is still a fair poll)
	n.syncPolls++
	peer := cands[(int(s.tape.Draw(st, uint64(len(cands))))+n.syncPolls)%len(cands)]
	if !s.linked(peer, n) || !s.linked(n, peer) {
		return
	}
	if peer.tip().Idx <= n.tip().Idx {
		return
	}
	var blks []*Block
	for _, b := range peer.ledger {
		if b.Idx > n.tip().Idx {
			blks = append(blks, b)
		}
	}
	l := s.latency(peer, n, st) * 2
	s.after(l, &Event{Kind: EvSyncReply, Node: n.id, Inc: n.inc, Blks: blks})
}

// ---------------------------------------------------------------- workload

func (s *Sim) workload() {
	sc := s.sc
	period := int64(sc.TPB) / int64(sc.TxRate)
	s.after(period/2+s.tape.Range(SWork, 0, period), &Event{Kind: EvWorkload})
	if len(s.allTx) > 400 {
		return
	}
	invalid := sc.InvalidTxPM > 0 && s.tape.Chance(SWork, sc.InvalidTxPM, 1000)
	s.nextTx++
	tx := NewTx(s.nextTx, invalid)
	s.allTx[tx.Hash()] = tx
	if invalid {
		s.fault("invalid_tx_injected")
	}
	for _, n := range s.nodes {
		var d int64
		if sc.PoorNode > 0 && n.ident == sc.PoorNode-1 && !s.tape.Chance(SWork, 1, 4) {
			continue
		}
		if sc.TxMissing {
			d = s.tape.Range(SWork, 0, 16) * sc.TxGossipMax / 4
			if s.tape.Chance(SWork, 1, 8) {
				continue // this pool never gets it by gossip
			}
		} else {
			d = s.tape.Range(SWork, 0, 4) * sc.TxGossipMax / 8
		}
		s.after(d, &Event{Kind: EvTxArrive, Node: n.id, Tx: tx})
	}
}

func sortedHashes(m map[Hash]*Tx) []*Tx {
	l := make([]*Tx, 0, len(m))
	for _, t := range m {
		l = append(l, t)
	}
	sort.Slice(l, func(i, j int) bool { return l[i].ID < l[j].ID })
	return l
}
