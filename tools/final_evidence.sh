#!/bin/bash
# Re-runs every registered check in /verif against /repo and leaves fresh evidence files.
# usage: tools/final_evidence.sh [tier] [budget_s]
tier=${1:-thorough}; budget=${2:-240}
cd /verif
for p in C01 C02 C03 C04 C05 C07 C08 C09 C10 C11 C12 C13 C14 C15 C16 C17 C18 C20; do
  VERIF_BUDGET_S=$budget ./check $p $tier 2>&1 | grep -v "^KNOWN" | cut -c1-300
  echo "  -> exit=${PIPESTATUS[0]}"
done
python3-vt - <<'PY'
import json,jsonschema,glob
sch=json.load(open('/root/.vp/EVIDENCE.schema.json'))
for f in sorted(glob.glob('/verif/evidence/*.json')):
    jsonschema.validate(json.load(open(f)),sch)
print("all evidence files validate")
PY
