package verifsim

import "fmt"

// C14 - time enters only through the injected timer.  The same tape is
// executed against two clocks that differ by a constant offset; the canonical
// traces (timestamps relative to the epoch, hashes as ordinals) must be equal.
func runC14(t *Tape, record bool) *RunResult {
	scA := TimingScenario(t)
	sA := NewSim(scA, t)
	sA.record = record
	cA := NewCanon(sA)
	sA.AddOracle(cA)
	sA.Run()

	reseedCrypto()
	tB := NewReplayTape(t.Rec)
	scB := TimingScenario(tB)
	scB.Epoch0 += scB.ShiftNs
	sB := NewSim(scB, tB)
	sB.record = record
	cB := NewCanon(sB)
	sB.AddOracle(cB)
	sB.Run()

	res := &RunResult{St: sA.st, Scen: scA.Summary(), SimCount: 2}
	res.Scen["epoch_shift_s"] = float64(scA.ShiftNs) / 1e9
	res.St.Events += sB.st.Events
	res.St.Calls += sB.st.Calls
	res.St.TraceHash = mix64(sA.st.TraceHash, sB.st.TraceHash)
	// non-trivial: the run contained a round-trip sample and a view change
	if sA.st.Probe["log:received PrepareResponse"] > 0 && sA.st.Probe["log:changing dbft view"] > 0 {
		res.St.Exercised = true
	}
	if k := firstDiff(cA.Steps, cB.Steps); k >= 0 {
		d := fmt.Sprintf("runs with clocks %+.0f s apart diverge at API call #%d of %d/%d", float64(scA.ShiftNs)/1e9, k, len(cA.Steps), len(cB.Steps))
		if record {
			lo := k - 6
			if lo < 0 {
				lo = 0
			}
			for i := lo; i <= k+1; i++ {
				if i < len(cA.Desc) {
					res.Trace = append(res.Trace, fmt.Sprintf("A[%d] %s", i, cA.Desc[i]))
				}
				if i < len(cB.Desc) {
					res.Trace = append(res.Trace, fmt.Sprintf("B[%d] %s", i, cB.Desc[i]))
				}
			}
		}
		res.Viol = &Violation{Prop: "C14", Class: "trace_diverges_under_clock_shift", Detail: d, Seq: uint64(k)}
	} else if record {
		res.Trace = append(res.Trace, sA.trace...)
	}
	return res
}

func init() {
	register(&PropSpec{ID: "C14", Run: runC14,
		Rule: "each evaluation executes one tape twice, against clocks that differ by a constant offset (seconds to decades, both signs, multiple of the timestamp increment), and compares the canonical traces; non-trivial iff the run contained a round-trip sample at a primary and a view change; distinct = distinct ordered delivery sequences"})
}
