package verifsim

import (
	"fmt"
	"time"

	"github.com/nspcc-dev/dbft"
)

// API fuzz for C11(3): one to four library instances driven directly by
// generated call sequences - well-typed payloads of arbitrary type, height,
// view, index and content (authentic ones broadcast by the instances mixed
// in), arbitrary timeouts and transactions, callbacks returning arbitrary
// verdicts and errors, the validator set / own index / watch-only flag
// changing between heights.  Every call runs under recover(); the logger is in
// development mode, so the library's DPanic assertions are panics too.

func FuzzScenario(t *Tape) *Scenario {
	sc := baseScenario(t, "fuzz", 1, 7)
	addEpochs(t, sc)
	sc.NObs = int(t.Draw(SScen, 2))
	sc.DevLogger = true
	sc.GST = -1
	sc.SyncEvery = 0
	sc.TxRate = 0
	sc.MaxTxPerBlock = int(t.Range(SScen, 0, 3))
	sc.ProcErrPM = pick(t, SScen, uint64(0), 200, 500)
	sc.VerdictPM = pick(t, SScen, uint64(0), 100, 400)
	if t.Chance(SScen, 1, 3) {
		sc.MaxTPB = sc.TPB * 2
	}
	for i := range sc.FlagWO {
		if t.Chance(SScen, 1, 8) {
			sc.FlagWO[i] = true
		}
	}
	sc.MaxEvents = 300 + int(t.Draw(SScen, 300))
	return sc
}

func runFuzz(t *Tape, record bool) *RunResult {
	sc := FuzzScenario(t)
	s := NewSim(sc, t)
	s.record = record
	s.manual = true
	o := &OracleC11{s: s}
	s.AddOracle(o)
	// at most four instances
	nodes := s.nodes
	if len(nodes) > 4 {
		perm := t.Perm(SScen, len(nodes))
		var sel []*Node
		for _, i := range perm[:4] {
			sel = append(sel, nodes[i])
		}
		nodes = sel
	}
	dbft.VerifMapPerm = func(n int) []int { return t.Perm(SMap, n) }
	defer func() { dbft.VerifMapPerm = nil }()
	for _, n := range nodes {
		n.boot()
	}
	for i := 0; i < 24; i++ {
		tx := NewTx(uint64(i+1), t.Chance(SWork, 1, 4))
		s.allTx[tx.Hash()] = tx
		for _, n := range nodes {
			if t.Chance(SWork, 1, 2) {
				n.pool[tx.Hash()] = tx
			}
		}
	}
	txs := sortedHashes(s.allTx)
	effective := 0
	for step := 0; step < sc.MaxEvents && s.viol == nil; step++ {
		var live []*Node
		for _, n := range nodes {
			if n.up && n.d != nil {
				live = append(live, n)
			}
		}
		if len(live) == 0 {
			break
		}
		n := live[t.Draw(SProbe, uint64(len(live)))]
		d := n.d
		s.now += int64(t.Range(SProbe, 0, 4)) * int64(sc.TPB) / 4
		s.st.Events++
		h, v := d.BlockIndex, d.ViewNumber
		var st *Step
		switch t.Draw(SProbe, 16) {
		case 0, 1, 2, 3, 4: // an authentic payload broadcast by some instance (deep states)
			if len(s.authentic) == 0 {
				continue
			}
			k := len(s.authentic)
			w := k
			if w > 40 {
				w = 40
			}
			p := s.authentic[k-1-int(t.Draw(SProbe, uint64(w)))].Clone()
			st = &Step{Op: OpReceive, P: p}
			n.call(st, func() { n.d.OnReceive(p) })
		case 5, 6, 7, 8: // arbitrary well-typed payload
			p := fuzzPayload(s, n, t, txs)
			st = &Step{Op: OpReceive, P: p}
			n.call(st, func() { n.d.OnReceive(p) })
		case 9, 10: // timeout, mostly for the current epoch
			th, tv := h, v
			if t.Chance(SProbe, 1, 4) {
				th = h + uint32(t.Draw(SProbe, 3)) - 1
				tv = byte(t.Draw(SProbe, 4))
			}
			st = &Step{Op: OpTimeout, TH: th, TV: tv}
			n.call(st, func() { n.d.OnTimeout(th, tv) })
		case 11, 12: // a transaction, requested or not
			tx := txs[t.Draw(SProbe, uint64(len(txs)))]
			n.pool[tx.Hash()] = tx
			st = &Step{Op: OpTx, Tx: tx}
			n.call(st, func() { n.d.OnTransaction(tx) })
		case 13:
			st = &Step{Op: OpNewTx}
			n.call(st, func() { n.d.OnNewTransaction() })
		case 14, 15: // the application moves its ledger (or not) and calls Reset
			if t.Chance(SProbe, 2, 3) {
				k := 1 + int(t.Draw(SProbe, 3))
				for i := 0; i < k; i++ {
					tip := n.tip()
					n.ledger = append(n.ledger, &Block{Header: Header{Idx: tip.Idx + 1, Prev: tip.Hash(), TS: tip.TS + sc.TSInc, TxHashes: []Hash{}}})
				}
			}
			if t.Chance(SProbe, 1, 6) {
				n.flagWO = !n.flagWO
			}
			n.resetPending = false
			ts := n.tip().TS
			st = &Step{Op: OpReset, Arg: ts}
			n.call(st, func() { n.d.Reset(ts) })
		}
		if st != nil && len(st.Outs) > 0 {
			effective++
		}
	}
	if effective >= 20 {
		s.st.Exercised = true
	}
	s.st.SimTime = s.now
	res := &RunResult{Viol: s.viol, St: s.st, Scen: sc.Summary(), Trace: s.trace, SimCount: 1}
	res.Scen["fuzz_calls"] = sc.MaxEvents
	return res
}

func fuzzPayload(s *Sim, n *Node, t *Tape, txs []*Tx) *Payload {
	d := n.d
	h := d.BlockIndex + uint32(t.Draw(SProbe, 4)) - 1
	if d.BlockIndex == 0 && h > d.BlockIndex+2 {
		h = 0
	}
	v := byte(t.Draw(SProbe, 4))
	if t.Chance(SProbe, 1, 2) {
		v = d.ViewNumber
	}
	nv := len(s.sc.ValsAt(h))
	idx := int(t.Draw(SProbe, uint64(nv+2)))
	types := []dbft.MessageType{dbft.PrepareRequestType, dbft.PrepareResponseType, dbft.ChangeViewType, dbft.CommitType, dbft.PreCommitType, dbft.RecoveryRequestType, dbft.RecoveryMessageType}
	typ := types[t.Draw(SProbe, uint64(len(types)))]
	var body any
	switch typ {
	case dbft.PrepareRequestType:
		hs := []Hash{}
		for i := 0; i < int(t.Draw(SProbe, 4)); i++ {
			hs = append(hs, txs[t.Draw(SProbe, uint64(len(txs)))].Hash())
		}
		body = &PrepReq{TS: n.tip().TS + s.sc.TSInc*t.Draw(SProbe, 4), Nnc: t.Draw(SProbe, 3), Hashes: hs}
	case dbft.PrepareResponseType:
		var ph Hash
		if q := d.PreparationPayloads[d.PrimaryIndex]; q != nil && t.Chance(SProbe, 2, 3) {
			ph = q.Hash()
		} else {
			ph[0] = byte(t.Draw(SProbe, 4))
		}
		body = &PrepResp{Prep: ph}
	case dbft.ChangeViewType:
		body = &ChView{NewView: byte(t.Draw(SProbe, 5)), Rsn: dbft.ChangeViewReason(t.Draw(SProbe, 6)), TS: t.Draw(SProbe, 1000)}
	case dbft.CommitType, dbft.PreCommitType:
		var sig []byte
		k := s.kr.Priv(s.sc.ValsAt(h)[idx%nv])
		if hdr, ok := headerFor(n); ok && t.Chance(SProbe, 2, 3) {
			hdr.Final = s.sc.amevAt(h)
			kind := "block"
			if typ == dbft.PreCommitType {
				kind = "preblock"
				hdr.Final = false
			}
			bh := hdr.hash(kind)
			sig = k.Sign(bh[:])
		} else {
			sig = k.Sign([]byte{byte(t.Draw(SProbe, 4))})
		}
		if typ == dbft.CommitType {
			body = &CommitBody{Sig: sig}
		} else {
			body = &PreCommitBody{D: sig}
		}
	case dbft.RecoveryRequestType:
		body = &RecReq{TS: t.Draw(SProbe, 1000)}
	case dbft.RecoveryMessageType:
		rm := &RecMsg{}
		for i := len(s.authentic) - 1; i >= 0 && i > len(s.authentic)-30; i-- {
			p := s.authentic[i]
			if p.T == dbft.RecoveryMessageType || p.T == dbft.RecoveryRequestType || !t.Chance(SProbe, 1, 2) {
				continue
			}
			if p.T == dbft.PrepareRequestType && rm.PrepReqP != nil {
				continue
			}
			rm.AddPayload(p.Clone())
		}
		if t.Chance(SProbe, 1, 2) {
			// an application that does not authenticate compact entries: whatever the sender
			// put inside reaches the library, with any validator index and view
			rm.Lax = true
			for k := int(t.Draw(SProbe, 4)); k > 0; k-- {
				ii := uint16(t.Draw(SProbe, uint64(nv+3)))
				iv := byte(t.Draw(SProbe, 4))
				switch t.Draw(SProbe, 4) {
				case 0:
					rm.ChViews = append(rm.ChViews, &Payload{T: dbft.ChangeViewType, H: h, V: iv, Idx: ii, Body: &ChView{NewView: iv + 1 + byte(t.Draw(SProbe, 2)), TS: 1}, sender: -1})
				case 1:
					rm.PrepResps = append(rm.PrepResps, &Payload{T: dbft.PrepareResponseType, H: h, V: v, Idx: ii, Body: &PrepResp{}, sender: -1})
				case 2:
					rm.Commits = append(rm.Commits, &Payload{T: dbft.CommitType, H: h, V: iv, Idx: ii, Body: &CommitBody{Sig: []byte{1}}, sender: -1})
				case 3:
					rm.PreCommits = append(rm.PreCommits, &Payload{T: dbft.PreCommitType, H: h, V: iv, Idx: ii, Body: &PreCommitBody{D: []byte{1}}, sender: -1})
				}
			}
		}
		body = rm
	}
	p := &Payload{T: typ, H: h, V: v, Idx: uint16(idx), Body: body, sender: -1}
	if idx < nv {
		p.sign(s.kr.Priv(s.sc.ValsAt(h)[idx]))
	}
	return p
}

// runC11 alternates between probed cluster runs and API fuzz runs.
func runC11(t *Tape, record bool) *RunResult {
	if t.Chance(SScen, 1, 16) {
		return directedChangeViewRun(func(s *Sim) { s.AddOracle(NewOracleC11(s)) })(t, record)
	}
	if t.Draw(SScen, 2) == 0 {
		sc := SafetyScenario(t)
		sc.DevLogger = true
		s := NewSim(sc, t)
		s.record = record
		s.AddOracle(NewOracleC11(s))
		s.Run()
		r := &RunResult{Viol: s.viol, St: s.st, Scen: sc.Summary(), Trace: s.trace, SimCount: 1}
		r.Scen["mode"] = "probed cluster run"
		return r
	}
	r := runFuzz(t, record)
	r.Scen["mode"] = "api fuzz"
	return r
}

var _ = fmt.Sprintf
var _ = time.Second
