package verifsim

import (
	"fmt"

	"github.com/nspcc-dev/dbft"
)

// C05 - one decision per initialisation, quiescence until Reset, clean
// re-initialisation.
type OracleC05 struct {
	BaseOracle
	s       *Sim
	preFP   map[int]string // fingerprint before a call on a decided node
	okCount map[[2]int]int
	hashes  map[[2]int]Hash
	anyHash map[[2]int]bool
	preCache []dbft.VerifCacheEntry
	tm       map[int]*c05Timing
}

// c05Timing: what one incarnation of a node could legitimately know about elapsed time and
// round trips (simulated time; all the node's clock readings differ from it by a constant
// unless the scenario makes the clock step).
type c05Timing struct {
	inc        int
	enterAt    map[uint32]int64 // when Start/Reset put this incarnation at a height
	hasProp    bool
	lastPropAt int64  // its latest own proposal ...
	lastPropH  uint32 // ... and that proposal's height
	maxRT      int64  // upper bound of every round trip it can have measured
	early      map[string]bool // payloads (hash) that reached this incarnation while it was at a lower height
}

// subscribedInCall: the library (re)issued the transaction subscription inside this call.
func subscribedInCall(st *Step) bool {
	for i := range st.Outs {
		if st.Outs[i].Kind == OSubscribe {
			return true
		}
	}
	return false
}

// armedFor returns the durations of every Timer.Reset for (h, v) made in the call, in order.
// Whether the initialisation arms its own timer before or after replaying the cached payloads
// (which may re-arm it) is the library's choice: the timing rules are met if ANY of these
// satisfies them.
func armedFor(st *Step, h uint32, v byte) []int64 {
	var ds []int64
	for i := range st.Outs {
		if o := &st.Outs[i]; o.Kind == OTimerReset && o.H == h && o.V == v {
			ds = append(ds, int64(o.D))
		}
	}
	return ds
}

func anyAtLeast(ds []int64, x int64) bool {
	for _, d := range ds {
		if d >= x {
			return true
		}
	}
	return false
}

func anyAtMost(ds []int64, x int64) bool {
	for _, d := range ds {
		if d <= x {
			return true
		}
	}
	return false
}

func (o *OracleC05) timing(n *Node) *c05Timing {
	t := o.tm[n.id]
	if t == nil || t.inc != n.inc {
		t = &c05Timing{inc: n.inc, enterAt: map[uint32]int64{}, early: map[string]bool{}}
		o.tm[n.id] = t
	}
	return t
}

func NewOracleC05(s *Sim) *OracleC05 {
	return &OracleC05{s: s, preFP: map[int]string{}, okCount: map[[2]int]int{}, hashes: map[[2]int]Hash{}, anyHash: map[[2]int]bool{}, tm: map[int]*c05Timing{}}
}
func (o *OracleC05) Name() string { return "C05" }

func (o *OracleC05) viol(n *Node, class, f string, a ...any) {
	o.s.Violate("C05", class, n.String()+": "+fmt.Sprintf(f, a...), n.id)
}

var quiescentMask = fpMask{LastSeen: false, Cache: false, Timer: true, Timing: true}

func (o *OracleC05) BeforeCall(n *Node, st *Step) {
	delete(o.preFP, n.id)
	o.preCache = nil
	if n.d != nil && st.Op != OpStart {
		// what the future-message cache holds before the call (see AfterCall)
		o.preCache = n.d.VerifState().Cache
	}
	if n.d != nil && st.Op == OpReceive {
		// a round trip is measured from an own proposal to a payload received later at that
		// height: whatever the estimator does, no sample exceeds this
		if t := o.timing(n); t.hasProp && t.lastPropH == n.d.BlockIndex && o.s.now-t.lastPropAt > t.maxRT {
			t.maxRT = o.s.now - t.lastPropAt
		}
	}
	if st.Op == OpStart || st.Op == OpReset {
		k := [2]int{n.id, n.inc}
		o.okCount[k] = 0
		delete(o.anyHash, k)
		return
	}
	if n.d != nil && st.PreDec {
		o.preFP[n.id] = n.fingerprint(quiescentMask)
	}
}

func (o *OracleC05) OnOut(n *Node, st *Step, out *Out) {
	if out.Kind == OBroadcast && out.P != nil && out.P.T == dbft.PrepareRequestType {
		t := o.timing(n)
		t.hasProp, t.lastPropAt, t.lastPropH = true, o.s.now, out.P.H
	}
	if out.Kind != OProcessBlock {
		return
	}
	k := [2]int{n.id, n.inc}
	if o.anyHash[k] && o.hashes[k] != out.Hash {
		o.viol(n, "two_blocks_in_one_initialisation", "height %d: handed over %s after %s without a Reset in between", out.Hdr.Idx, out.Hash, o.hashes[k])
		return
	}
	o.anyHash[k], o.hashes[k] = true, out.Hash
	if out.OK {
		o.okCount[k]++
		if o.okCount[k] > 1 {
			o.viol(n, "second_decision_before_reset", "height %d: ProcessBlock succeeded %d times without a Reset in between", out.Hdr.Idx, o.okCount[k])
		}
	}
}

func (o *OracleC05) AfterCall(n *Node, st *Step) {
	if n.d == nil || st.Panic != nil {
		return
	}
	d := n.d
	s := o.s
	// Payloads received early stay available until their height and view come: an entry of the
	// future-message cache for the node's height (after the call) and a view ABOVE the node's
	// view cannot have been used yet, so it must still be there when the call returns
	// (change-view requests are handled at once whatever their view and are not cached).
	if st.Op == OpReceive && st.P != nil && !st.Probe && st.P.H > st.PreBI {
		o.timing(n).early[st.P.Hash().String()] = true
	}
	if o.preCache != nil && !d.BlockSent() {
		// (C05 speaks about payloads received early for a NEW HEIGHT: only cache entries that
		// reached the node while it was at a lower height are judged here; what a node does with
		// payloads of a future view of the height it is already in is C09's matter.)
		// (the cache keeps one payload per kind and validator: a later payload of the same
		// validator may take the slot over, the slot must not become empty)
		early := o.timing(n).early
		post := map[string]bool{}
		for _, e := range d.VerifState().Cache {
			if e.Height == d.BlockIndex {
				post[fmt.Sprintf("%s/%d", e.Kind, e.Index)] = true
			}
		}
		for _, e := range o.preCache {
			if e.Height == d.BlockIndex && e.View > d.ViewNumber && e.Kind != "chViews" && early[e.Hash] && !post[fmt.Sprintf("%s/%d", e.Kind, e.Index)] {
				o.viol(n, "cached_future_view_payload_lost", "height %d view %d: %s took the cached %s payload of validator %d for view %d out of the future-message cache although the node has not reached that view", d.BlockIndex, d.ViewNumber, st.describe(), e.Kind, e.Index, e.View)
				return
			}
		}
	}
	// the "recovering" marker only lives inside the processing of one recovery message
	if d.VerifState().Recovering {
		o.viol(n, "recovering_flag_left_set", "height %d view %d: %s returned with the recovering marker still set (it would give the next primary slot the backups' timeout and suppress round-trip samples)", d.BlockIndex, d.ViewNumber, st.describe())
		return
	}
	if pre, ok := o.preFP[n.id]; ok {
		// (b) the node had decided before this call and was not re-initialised by it
		s.st.Exercised = true
		s.note("call_on_decided_node")
		recoveryReply := st.Op == OpReceive && st.P != nil && st.P.T == dbft.RecoveryRequestType
		for i := range st.Outs {
			out := &st.Outs[i]
			switch out.Kind {
			case OBroadcast:
				if recoveryReply && out.P.T == dbft.RecoveryMessageType {
					continue
				}
				o.viol(n, "broadcast_after_decision", "decided height %d, %s caused broadcast of %s", d.BlockIndex, st.describe(), out.P)
				return
			case OTimerReset, OTimerExtend:
				o.viol(n, "timer_touched_after_decision", "decided height %d, %s caused %s", d.BlockIndex, st.describe(), out.describe())
				return
			case OProcessBlock, OProcessPreBlock:
				o.viol(n, "callback_after_decision", "decided height %d, %s caused %s", d.BlockIndex, st.describe(), out.describe())
				return
			}
		}
		if post := n.fingerprint(quiescentMask); post != pre {
			o.viol(n, "state_changed_after_decision", "decided height %d, %s changed the state:%s", d.BlockIndex, st.describe(), fpDiff(pre, post))
			return
		}
	}
	// (d) payloads received early are kept for the height (view) they belong to: a payload
	// for a future height whose sender is a validator OF THAT HEIGHT, or for a future view of
	// the current height, must sit in the future-message cache when the call returns
	if st.Op == OpReceive && st.P != nil && !st.Probe && (!st.PreDec || st.P.H > st.PreBI) {
		p := st.P
		kind := ""
		switch p.T {
		case dbft.PrepareRequestType, dbft.PrepareResponseType:
			kind = "prepare"
		case dbft.ChangeViewType:
			kind = "chViews"
		case dbft.PreCommitType:
			kind = "preCommit"
		case dbft.CommitType:
			kind = "commit"
		}
		future := p.H > st.PreBI // (a future view of the current height is not C05's matter)
		// (a pre-commit for a height at which anti-MEV is off is no part of the protocol: it may be
		// dropped at once or at replay)
		if p.T == dbft.PreCommitType && !s.sc.amevAt(p.H) {
			kind = ""
		}
		if kind != "" && future && st.PostBI == st.PreBI && int(p.Idx) < len(s.sc.ValsAt(p.H)) {
			found := false
			for _, e := range d.VerifState().Cache {
				// (one slot per kind and validator: which of several payloads of one validator
				// the cache keeps is the library's choice, the slot must not be empty)
				if e.Height == p.H && e.Kind == kind && e.Index == p.Idx {
					found = true
				}
			}
			if p.H > st.PreBI {
				s.note("early_payload_for_future_height")
				if len(s.sc.ValsAt(p.H)) > len(s.sc.ValsAt(st.PreBI)) && int(p.Idx) >= len(s.sc.ValsAt(st.PreBI)) {
					s.note("early_payload_from_new_validator_of_a_grown_set")
					s.st.Exercised = true
				}
			}
			if !found {
				o.viol(n, "early_payload_not_kept", "at height %d view %d (%d validators) the node was given %s, whose sender is validator %d of the %d validators of height %d, and did not keep it for that height", st.PreBI, st.PreV, len(s.sc.ValsAt(st.PreBI)), p, p.Idx, len(s.sc.ValsAt(p.H)), p.H)
				return
			}
		}
	}
	// Timing after a view change: the first timer of a new view is the full one of the dBFT
	// timeout ladder (T << (view+1) for a node that is not the view's primary) unless there is
	// a previous height's proposal to measure from; a node that has never held a proposal of
	// the previous height (in particular at the first block of a chain) has nothing to subtract.
	if st.Op != OpStart && st.Op != OpReset && st.PostBI == st.PreBI && st.PostV > st.PreV && d.MyIndex >= 0 && !n.flagWO && !d.IsPrimary() &&
		!d.CommitSent() && !d.PreCommitSent() && !d.RequestSentOrReceived() && !d.BlockSent() {
		seen := false
		for k := range n.facts.proposals {
			if k.h+1 == d.BlockIndex {
				seen = true
			}
		}
		var last *Out
		for i := range st.Outs {
			if st.Outs[i].Kind == OTimerReset {
				last = &st.Outs[i]
			}
		}
		ref := refTimers(s.sc.TPBAt(d.BlockIndex), s.sc.MaxTPBAt(d.BlockIndex), len(d.Validators))
		if !seen && last != nil && last.H == d.BlockIndex && last.V == d.ViewNumber && (!ref.ok || int(d.ViewNumber) >= len(ref.backV) || ref.backV[d.ViewNumber] == 0) {
			s.note("no_timer_reference")
		} else if !seen && last != nil && last.H == d.BlockIndex && last.V == d.ViewNumber {
			// (the round-trip estimator lives across heights by design: the wait may be shorter
			// by what this incarnation can have measured, see the wave-12 rule below)
			full := ref.backV[d.ViewNumber]
			if !anyAtLeast(armedFor(st, d.BlockIndex, d.ViewNumber), int64(full)-o.timing(n).maxRT) {
				o.viol(n, "timer_shortened_without_previous_proposal", "height %d view %d: the node never held a proposal of height %d, yet the timer armed on entering the view is %v instead of the full %v", d.BlockIndex, d.ViewNumber, d.BlockIndex-1, last.D, full)
				return
			}
			s.note("full_timer_on_view_change_without_previous_proposal")
		}
	}
	if st.Op != OpStart && st.Op != OpReset {
		return
	}
	// (c) immediately after Start / Reset.  Cached early payloads are replayed
	// inside the call, so the node may legitimately already be in a higher view
	// or hold payloads - of the new height only.
	tip := n.initTip
	if d.BlockIndex != tip+1 {
		o.viol(n, "wrong_height_after_reset", "ledger tip %d but BlockIndex %d", tip, d.BlockIndex)
		return
	}
	want := s.sc.ValsAt(tip + 1)
	if len(d.Validators) != len(want) {
		o.viol(n, "stale_validators_after_reset", "height %d: %d validators, the callback returns %d", d.BlockIndex, len(d.Validators), len(want))
		return
	}
	for i, v := range d.Validators {
		if pk, ok := v.(*PubKey); !ok || pk.ID != want[i] {
			o.viol(n, "stale_validators_after_reset", "height %d: validator %d differs from what the callback returns", d.BlockIndex, i)
			return
		}
	}
	if wi := s.sc.IndexAt(tip+1, n.ident); d.MyIndex != wi {
		o.viol(n, "stale_own_index_after_reset", "height %d: MyIndex %d, expected %d", d.BlockIndex, d.MyIndex, wi)
		return
	}
	if d.PrevHash != n.initTipHash {
		o.viol(n, "stale_prev_hash_after_reset", "height %d: PrevHash %s, ledger tip hash %s", d.BlockIndex, d.PrevHash, n.initTipHash)
		return
	}
	vs := d.VerifState()
	if vs.TimePerBlock != s.sc.TPBAt(tip+1) || (s.sc.MaxTPB > 0 && vs.MaxTimePerBlock != s.sc.MaxTPBAt(tip+1)) {
		o.viol(n, "stale_timing_after_reset", "height %d: time per block %v/%v, callbacks return %v/%v", d.BlockIndex, vs.TimePerBlock, vs.MaxTimePerBlock, s.sc.TPBAt(tip+1), s.sc.MaxTPBAt(tip+1))
		return
	}
	if !d.RequestSentOrReceived() && d.ViewNumber == 0 {
		// no proposal of the new height has been replayed from the cache: nothing derived from
		// a proposal may be there
		switch {
		case vs.HasBlock, vs.HasPreBlock, vs.HasHeader, vs.HasPreHeader:
			o.viol(n, "stale_block_after_reset", "height %d: a cached block/pre-block/header survived the initialisation (block=%v preblock=%v header=%v preheader=%v)", d.BlockIndex, vs.HasBlock, vs.HasPreBlock, vs.HasHeader, vs.HasPreHeader)
			return
		case vs.PreBlockProcessed:
			o.viol(n, "stale_preblock_flag_after_reset", "height %d: the pre-block still counts as processed", d.BlockIndex)
			return
		case vs.TxSubscriptionOn && !subscribedInCall(st):
			o.viol(n, "stale_subscription_after_reset", "height %d: the transaction subscription of the previous height is still on", d.BlockIndex)
			return
		case len(d.Transactions) != 0 || len(d.MissingTransactions) != 0 || len(d.TransactionHashes) != 0:
			o.viol(n, "stale_transactions_after_reset", "height %d: %d transactions, %d missing, %d proposed hashes retained", d.BlockIndex, len(d.Transactions), len(d.MissingTransactions), len(d.TransactionHashes))
			return
		}
	}
	if vs.LastBlockTimestamp != st.Arg {
		o.viol(n, "stale_timestamp_after_reset", "height %d: previous block timestamp %d retained, %d was given", d.BlockIndex, vs.LastBlockTimestamp, st.Arg)
		return
	}
	nv := len(want)
	tables := []struct {
		name string
		l    []dbft.ConsensusPayload[Hash]
	}{{"preparation", d.PreparationPayloads}, {"commit", d.CommitPayloads}, {"precommit", d.PreCommitPayloads},
		{"change-view", d.ChangeViewPayloads}, {"last change-view", d.LastChangeViewPayloads}}
	for _, tb := range tables { // fixed order: the first violation reported must not depend on map iteration
		name, l := tb.name, tb.l
		if len(l) != nv {
			o.viol(n, "table_size_after_reset", "height %d: %s table has %d slots for %d validators", d.BlockIndex, name, len(l), nv)
			return
		}
		for i, p := range l {
			if p != nil && p.Height() != d.BlockIndex {
				o.viol(n, "stale_payload_after_reset", "height %d: %s slot %d still holds %s of height %d", d.BlockIndex, name, i, p.Type(), p.Height())
				return
			}
		}
	}
	if len(d.LastSeenMessage) != nv {
		o.viol(n, "table_size_after_reset", "height %d: last-seen table has %d slots for %d validators", d.BlockIndex, len(d.LastSeenMessage), nv)
		return
	}
	for i, x := range d.LastSeenMessage {
		if x != nil && x.Height != d.BlockIndex {
			o.viol(n, "stale_payload_after_reset", "height %d: last-seen slot %d refers to height %d", d.BlockIndex, i, x.Height)
			return
		}
	}
	if vs.BlockProcessed && !o.anyHash[[2]int{n.id, n.inc}] {
		o.viol(n, "decided_flag_retained_after_reset", "height %d: the node still counts as decided", d.BlockIndex)
		return
	}
	for _, h := range d.VerifCacheHeights() {
		if h < d.BlockIndex {
			o.viol(n, "stale_cache_after_reset", "height %d: the future-message cache still holds an entry for height %d", d.BlockIndex, h)
			return
		}
	}
	// Timing: the only thing earlier heights may contribute is the documented timer adjustment
	// by the time elapsed since the proposal of the IMMEDIATELY preceding height was handled.
	// If this incarnation never held a proposal of height h-1, the first timer armed for
	// (h, view 0) must be the full one of the dBFT timeout ladder: T for the primary,
	// 2T for a backup.
	if d.MyIndex >= 0 && !n.flagWO {
		seen := false
		for k := range n.facts.proposals {
			if k.h == d.BlockIndex-1 {
				seen = true
			}
		}
		if !seen {
			// the initialisation's own timer is the last one armed in the call (cached payloads
			// replayed before it may have armed others, e.g. the commit timer)
			var last *Out
			for i := range st.Outs {
				if st.Outs[i].Kind == OTimerReset {
					last = &st.Outs[i]
				}
			}
			if last != nil && last.H == tip+1 && last.V == 0 && !d.CommitSent() && !d.PreCommitSent() && !d.RequestSentOrReceived() {
				ref := refTimers(s.sc.TPBAt(tip+1), s.sc.MaxTPBAt(tip+1), nv)
				full := ref.prim0
				if s.sc.IndexAt(tip+1, n.ident) != primaryOf(tip+1, 0, nv) {
					full = ref.back0
					if st.Op == OpReset {
						full = ref.back0R
					}
				}
				if !ref.ok {
					s.note("no_timer_reference")
				} else if !anyAtLeast(armedFor(st, tip+1, 0), int64(full)-o.timing(n).maxRT) {
					o.viol(n, "timer_shortened_by_older_height", "height %d: the node never held a proposal of height %d, yet the timer armed by its initialisation is %v instead of the full %v", tip+1, tip, last.D, full)
					return
				}
				if ref.ok {
					s.note("full_timer_after_unseen_height")
				}
			}
		}
	}
	// ... and whatever the node has seen before, the adjustment only ever shortens the wait:
	// the timer armed by an initialisation never exceeds the full one (T primary, 2T backup).
	// (Not judged in runs with clock steps: a backward step between the previous proposal and
	// the Reset makes the elapsed time negative and the library adds it - observation O9.)
	if d.MyIndex >= 0 && !n.flagWO && d.ViewNumber == 0 && !s.sc.ClockJumps {
		var last *Out
		for i := range st.Outs {
			if st.Outs[i].Kind == OTimerReset {
				last = &st.Outs[i]
			}
		}
		if last != nil && last.H == tip+1 && last.V == 0 && !d.CommitSent() && !d.PreCommitSent() && !d.RequestSentOrReceived() {
			ref := refTimers(s.sc.TPBAt(tip+1), s.sc.MaxTPBAt(tip+1), nv)
			full := ref.prim0
			if s.sc.IndexAt(tip+1, n.ident) != primaryOf(tip+1, 0, nv) {
				full = ref.back0
				if st.Op == OpReset {
					full = ref.back0R
				}
			}
			if !ref.ok {
				s.note("no_timer_reference")
			} else if !anyAtMost(armedFor(st, tip+1, 0), int64(full)) {
				o.viol(n, "timer_longer_than_full_after_reset", "height %d: the timer armed by the initialisation is %v, the full one is %v", tip+1, last.D, full)
				return
			}
		}
	}
	// Early (pre)commits are taken into account: a (pre)commit of the new height that sat in the
	// future-message cache before the Reset, sent by an honest validator in a view whose
	// primary is honest (so it verifies against the one proposal of that view), is either
	// still cached afterwards (its view lies ahead) or sits in the sender's slot of the table.
	if st.Op == OpReset && o.preCache != nil && !d.BlockSent() && !n.accepted && s.sc.VerdictPM == 0 {
		post := map[string]bool{}
		for _, e := range d.VerifState().Cache {
			post[e.Hash] = true
		}
		honestIdx := func(h uint32, idx int) bool {
			for _, m := range s.nodes {
				if m.kind == FHonest && m.ident < s.sc.NIdent && s.sc.IndexAt(h, m.ident) == idx {
					return true
				}
			}
			return false
		}
		for _, e := range o.preCache {
			if e.Height != d.BlockIndex || post[e.Hash] || int(e.Index) >= len(d.Validators) || (e.Kind != "commit" && e.Kind != "preCommit") {
				continue
			}
			if e.Kind == "preCommit" && !s.sc.amevAt(e.Height) {
				continue
			}
			if !honestIdx(e.Height, int(e.Index)) || !honestIdx(e.Height, primaryOf(e.Height, e.View, nv)) {
				continue
			}
			authentic := false
			for _, a := range s.authentic {
				if a.H == e.Height && a.Idx == e.Index && a.V == e.View && a.Hash().String() == e.Hash && a.sender >= 0 && a.sender < len(s.nodes) {
					// ... and sender and receiver build on the same block (a receiver on another
					// branch - known finding D1-fork - rightly finds the signature invalid)
					for _, b := range s.nodes[a.sender].ledger {
						if b.Idx == n.tip().Idx && b.Hash() == n.tip().Hash() {
							authentic = true
						}
					}
					break
				}
			}
			if !authentic {
				continue
			}
			var slot dbft.ConsensusPayload[Hash]
			if e.Kind == "commit" {
				slot = d.CommitPayloads[e.Index]
			} else {
				slot = d.PreCommitPayloads[e.Index]
			}
			if slot == nil {
				o.viol(n, "cached_vote_dropped_at_reset", "height %d (now view %d): the %s of validator %d for view %d was received early and cached; after the Reset it is neither in the cache nor in the table", d.BlockIndex, d.ViewNumber, e.Kind, e.Index, e.View)
				return
			}
			s.note("cached_vote_replayed_at_reset")
		}
	}
	// ... and it shortens the wait by no more than the time this incarnation has spent at the
	// previous height plus the longest round trip it can have measured: nothing else from
	// earlier heights (or from before a restart) may eat into the timer.
	tmg := o.timing(n)
	if d.MyIndex >= 0 && !n.flagWO && d.ViewNumber == 0 && !s.sc.ClockJumps {
		var last *Out
		for i := range st.Outs {
			if st.Outs[i].Kind == OTimerReset {
				last = &st.Outs[i]
			}
		}
		if at, ok := tmg.enterAt[tip]; ok && st.Op == OpReset && last != nil && last.H == tip+1 && last.V == 0 && !d.CommitSent() && !d.PreCommitSent() && !d.RequestSentOrReceived() {
			ref := refTimers(s.sc.TPBAt(tip+1), s.sc.MaxTPBAt(tip+1), nv)
			full := ref.prim0
			if s.sc.IndexAt(tip+1, n.ident) != primaryOf(tip+1, 0, nv) {
				full = ref.back0R
			}
			least := int64(full) - (s.now - at) - tmg.maxRT
			if ref.ok && least > 0 {
				if !anyAtLeast(armedFor(st, tip+1, 0), least) {
					o.viol(n, "timer_shortened_beyond_elapsed_time_and_round_trip", "height %d: the full timer is %v, this incarnation entered height %d only %.3f s ago and no round trip it can have measured exceeds %.3f s, yet the timer armed by the initialisation is %v", tip+1, full, tip, float64(s.now-at)/1e9, float64(tmg.maxRT)/1e9, last.D)
					return
				}
				s.note("timer_within_elapsed_time_and_round_trip")
			}
		}
	}
	tmg.enterAt[tip+1] = s.now
	if st.Op == OpReset && (tip+1 > st.PreBI+1) {
		s.st.Exercised = true
		s.note("reset_skipped_heights")
	}
	if st.Op == OpReset && len(s.sc.ValsAt(st.PreBI)) != nv {
		s.st.Exercised = true
		s.note("reset_changed_validator_count")
	}
}
