package verifsim

import "fmt"

// C13 (direct part) - a node that is not in the validator list of its height,
// or whose watch-only flag is set, never broadcasts, signs or produces
// pre-commit data.
type OracleC13 struct {
	BaseOracle
	s *Sim
}

func NewOracleC13(s *Sim) *OracleC13 { return &OracleC13{s: s} }
func (o *OracleC13) Name() string     { return "C13" }

func (o *OracleC13) OnOut(n *Node, st *Step, out *Out) {
	if out.Kind != OBroadcast && out.Kind != OSign && out.Kind != OSetData {
		return
	}
	if n.d == nil {
		return
	}
	h := n.tip().Idx + 1
	if st.Op != OpStart && st.Op != OpReset {
		h = n.d.BlockIndex
	}
	idx := o.s.sc.IndexAt(h, n.ident)
	if idx >= 0 && !n.flagWO {
		return
	}
	why := "is not in the validator list"
	if n.flagWO {
		why = "has the watch-only flag set"
	}
	role := "backup"
	if idx >= 0 && primaryOf(h, n.d.ViewNumber, len(o.s.sc.ValsAt(h))) == idx {
		role = "primary"
	}
	what := out.describe()
	o.s.Violate("C13", "watch_only_node_active", fmt.Sprintf("%s %s at height %d (rotation role: %s) but during %s it did: %s", n, why, h, role, st.describe(), what), n.id)
}

func (o *OracleC13) AfterCall(n *Node, st *Step) {
	if n.d == nil {
		return
	}
	h := n.d.BlockIndex
	idx := o.s.sc.IndexAt(h, n.ident)
	if n.flagWO && idx >= 0 && primaryOf(h, n.d.ViewNumber, len(o.s.sc.ValsAt(h))) == idx {
		o.s.st.Exercised = true
		o.s.note("flagged_validator_was_primary")
	}
	if idx < 0 {
		o.s.note("observer_call")
	}
}

// runC13 - direct oracle plus the differential part of the statement: "the
// validators around it make progress exactly as if it were a silent
// validator".  The same tape is executed twice: once with the special node
// (a validator with the watch-only flag, or an observer) running, once with it
// never started; every draw that concerns the special node comes from its own
// stream, so the other nodes' schedule is identical and their canonical traces
// must be equal (over the common prefix if an event cap truncated a run).
func runC13(t *Tape, record bool) *RunResult {
	special := func(s *Sim) *Node {
		for _, n := range s.nodes {
			if n.flagWO {
				return n
			}
		}
		for _, n := range s.nodes {
			if n.ident >= s.sc.NIdent {
				return n
			}
		}
		return nil
	}
	scA := WatchScenario(t)
	sA := NewSim(scA, t)
	sA.record = record
	wA := special(sA)
	if wA != nil {
		wA.special = true
	}
	cA := NewCanon(sA)
	cA.Only = func(n *Node) bool { return !n.special }
	sA.AddOracle(NewOracleC13(sA))
	sA.AddOracle(cA)
	sA.Run()
	res := &RunResult{Viol: sA.viol, St: sA.st, Scen: scA.Summary(), Trace: sA.trace, SimCount: 1}
	if sA.viol != nil || wA == nil || scA.WOAfterRestart != nil || scA.WOFlipIdent > 0 {
		return res // (no differential run when the flag is switched on at a restart or while running)
	}
	reseedCrypto()
	tB := NewReplayTape(t.Rec)
	scB := WatchScenario(tB)
	sB := NewSim(scB, tB)
	sB.record = record
	wB := special(sB)
	wB.special, wB.neverBoot = true, true
	cB := NewCanon(sB)
	cB.Only = func(n *Node) bool { return !n.special }
	sB.AddOracle(cB)
	sB.Run()
	res.SimCount = 2
	res.St.Events += sB.st.Events
	res.St.Calls += sB.st.Calls
	res.St.TraceHash = mix64(sA.st.TraceHash, sB.st.TraceHash)
	// the two runs may stop at slightly different instants (event caps count the
	// special node's own events): the common prefix must be identical
	a, b := cA.Steps, cB.Steps
	m := len(a)
	if len(b) < m {
		m = len(b)
	}
	a, b = a[:m], b[:m]
	if k := firstDiff(a, b); k >= 0 {
		res.Viol = &Violation{Prop: "C13", Class: "validators_behave_differently_than_with_silent_node", Seq: uint64(k), Node: wA.id,
			Detail: fmt.Sprintf("with %s watch-only and with it never started the other nodes' traces diverge at their API call #%d (of %d / %d)", wA, k, len(cA.Steps), len(cB.Steps))}
		if record {
			res.Trace = nil
			lo := k - 5
			if lo < 0 {
				lo = 0
			}
			for i := lo; i <= k+1; i++ {
				if i < len(cA.Desc) {
					res.Trace = append(res.Trace, fmt.Sprintf("watch-only[%d] %s", i, cA.Desc[i]))
				}
				if i < len(cB.Desc) {
					res.Trace = append(res.Trace, fmt.Sprintf("silent    [%d] %s", i, cB.Desc[i]))
				}
			}
		}
	}
	return res
}
