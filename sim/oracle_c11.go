package verifsim

import (
	"fmt"

	"github.com/nspcc-dev/dbft"
)

// C11 - input hygiene.  Three mechanisms:
//  1. probes: at tape-chosen points of a hostile cluster run one node is given
//     an input that an independent classifier (written from the property text:
//     it recomputes N, the primary and the anti-MEV status itself) labels
//     inadmissible; the whole-state fingerprint must not change (except the
//     sender's last-seen entry), nothing may be broadcast, the timer must not
//     be touched;
//  2. redelivery of a payload the node currently holds: nothing changes, the
//     only permitted output is a recovery message;
//  3. no API call, organic or injected, may panic (development-mode logger, so
//     the library's own DPanic assertions count).
type OracleC11 struct {
	BaseOracle
	s       *Sim
	preFP   string
	preSeen []string
	probing bool
	kind    string
	sender  int
	redeliv bool
	orgSeen []seenEnt
	orgBI   uint32
	cvPre   []int // organic ChangeView delivery: requested view per validator before the call (-1: none)
}

var probeMask = fpMask{LastSeen: false, Cache: true, Timer: true, Timing: true}

func NewOracleC11(s *Sim) *OracleC11 {
	o := &OracleC11{s: s}
	s.probeFn = o.maybeProbe
	return o
}
func (o *OracleC11) Name() string { return "C11" }

func (o *OracleC11) BeforeCall(n *Node, st *Step) {
	o.orgSeen = nil
	o.cvPre = nil
	if st.Op == OpReceive && n.d != nil && !st.Probe && n.judged() {
		o.orgSeen = snapSeen(n)
		o.orgBI = n.d.BlockIndex
		if st.P != nil && st.P.T == dbft.ChangeViewType && st.P.H == n.d.BlockIndex && !n.d.BlockSent() {
			o.cvPre = make([]int, len(n.d.ChangeViewPayloads))
			for i, m := range n.d.ChangeViewPayloads {
				o.cvPre[i] = -1
				if m != nil && m.GetChangeView() != nil {
					o.cvPre[i] = int(m.GetChangeView().NewViewNumber())
				}
			}
		}
	}
}

type seenEnt struct {
	ok bool
	h  uint32
	v  byte
}

func snapSeen(n *Node) []seenEnt {
	l := make([]seenEnt, len(n.d.LastSeenMessage))
	for i, x := range n.d.LastSeenMessage {
		if x != nil {
			l[i] = seenEnt{true, x.Height, x.View}
		}
	}
	return l
}

// rewound: noting that a sender is alive never moves its last-seen entry backwards.
func rewound(pre, post []seenEnt, own int) (int, bool) {
	for i := range pre {
		if i >= len(post) || !pre[i].ok || i == own { // the own entry is rewritten by every (re)initialisation

			continue
		}
		if !post[i].ok || post[i].h < pre[i].h || (post[i].h == pre[i].h && post[i].v < pre[i].v) {
			return i, true
		}
	}
	return 0, false
}

func (o *OracleC11) AfterCall(n *Node, st *Step) {
	if o.orgSeen != nil && n.d != nil && st.Panic == nil && n.d.BlockIndex == o.orgBI {
		if i, bad := rewound(o.orgSeen, snapSeen(n), n.d.MyIndex); bad {
			o.s.Violate("C11", "last_seen_moved_backwards", fmt.Sprintf("%s at height %d view %d: %s moved the last-seen entry of validator %d backwards (%v -> %v)", n, n.d.BlockIndex, n.d.ViewNumber, st.describe(), i, o.orgSeen[i], snapSeen(n)[i]), n.id)
			return
		}
	}
	// A change-view request that the node takes in and that completes a quorum takes the node
	// to the HIGHEST view the requests it holds support (a request for view w supports every
	// view up to w).  Stopping lower leaves it holding - in its previous-view table - requests
	// whose redelivery would move it again, which the redelivery clause excludes.
	if o.cvPre != nil && n.d != nil && st.Panic == nil && st.PostBI == st.PreBI && !n.d.BlockSent() && !n.d.CommitSent() && !n.d.PreCommitSent() {
		p := st.P
		idx := int(p.Idx)
		cv, _ := p.Body.(*ChView)
		admitted := false
		if cv != nil && idx < len(o.cvPre) && idx < len(n.d.ChangeViewPayloads) {
			for _, tab := range [][]dbft.ConsensusPayload[Hash]{n.d.ChangeViewPayloads, n.d.LastChangeViewPayloads} {
				if idx < len(tab) && tab[idx] != nil && tab[idx].Hash() == p.Hash() {
					admitted = true
				}
			}
		}
		if admitted {
			tab := append([]int(nil), o.cvPre...)
			if int(cv.NewView) > tab[idx] {
				tab[idx] = int(cv.NewView)
			}
			best := -1
			for v := 255; v > int(st.PreV); v-- {
				c := 0
				for _, w := range tab {
					if w >= v {
						c++
					}
				}
				if c >= n.d.M() {
					best = v
					break
				}
			}
			if best > int(st.PostV) {
				o.s.Violate("C11", "change_view_quorum_not_followed_to_its_view", fmt.Sprintf("%s at height %d: after %s it holds change-view requests for view %d or above from M=%d validators (requested views %v) but it is in view %d", n, st.PreBI, st.describe(), best, n.d.M(), tab, st.PostV), n.id)
				return
			}
			if best > int(st.PreV)+1 {
				o.s.note("change_view_quorum_two_or_more_views_ahead")
			}
		}
	}
	if st.Panic != nil {
		what := "organic"
		if st.Probe {
			what = "probe " + o.kind
		}
		o.s.Violate("C11", "panic", fmt.Sprintf("%s: %s (%s) panicked: %v", n, st.describe(), what, st.Panic), n.id)
	}
}

func seenList(n *Node) []string {
	l := make([]string, len(n.d.LastSeenMessage))
	for i, x := range n.d.LastSeenMessage {
		if x != nil {
			l[i] = fmt.Sprintf("%d/%d", x.Height, x.View)
		}
	}
	return l
}

func (o *OracleC11) maybeProbe() {
	s := o.s
	if s.viol != nil || !s.tape.Chance(SProbe, 1, 12) {
		return
	}
	var cands []*Node
	for _, n := range s.nodes {
		if n.up && n.d != nil && n.stallUntil <= s.now {
			cands = append(cands, n)
		}
	}
	if len(cands) == 0 {
		return
	}
	n := cands[s.tape.Draw(SProbe, uint64(len(cands)))]
	d := n.d
	h, v := d.BlockIndex, d.ViewNumber
	vals := s.sc.ValsAt(h)
	nv := len(vals)
	prim := primaryOf(h, v, nv)
	amev := s.sc.amevAt(h)
	tape := s.tape
	rh := func() Hash {
		var w hasher
		w.str("probe")
		w.u64(tape.Draw(SProbe, 6))
		return w.sum()
	}
	body := func(t dbft.MessageType) any {
		switch t {
		case dbft.PrepareRequestType:
			hs := []Hash{}
			for i := 0; i < int(tape.Draw(SProbe, 3)); i++ {
				hs = append(hs, rh())
			}
			return &PrepReq{TS: n.tip().TS + s.sc.TSInc*(1+tape.Draw(SProbe, 3)), Nnc: tape.Draw(SProbe, 4), Hashes: hs}
		case dbft.PrepareResponseType:
			if q := d.PreparationPayloads[d.PrimaryIndex]; q != nil && tape.Chance(SProbe, 1, 2) {
				return &PrepResp{Prep: q.Hash()}
			}
			return &PrepResp{Prep: rh()}
		case dbft.ChangeViewType:
			return &ChView{NewView: v + 1 + byte(tape.Draw(SProbe, 2)), TS: 1}
		case dbft.CommitType:
			return &CommitBody{Sig: make([]byte, 64)}
		case dbft.PreCommitType:
			return &PreCommitBody{D: make([]byte, 64)}
		case dbft.RecoveryRequestType:
			return &RecReq{TS: 1}
		}
		return &RecMsg{}
	}
	types := []dbft.MessageType{dbft.PrepareRequestType, dbft.PrepareResponseType, dbft.ChangeViewType, dbft.CommitType, dbft.PreCommitType, dbft.RecoveryRequestType, dbft.RecoveryMessageType}
	mk := func(t dbft.MessageType, hh uint32, vv byte, idx int) *Payload {
		p := &Payload{T: t, H: hh, V: vv, Idx: uint16(idx), Body: body(t), sender: -1}
		if idx >= 0 && idx < len(s.sc.ValsAt(hh)) {
			p.sign(s.kr.Priv(s.sc.ValsAt(hh)[idx]))
		}
		return p
	}
	anyIdx := func() int { return int(tape.Draw(SProbe, uint64(nv))) }
	var p *Payload
	var txp *Tx
	var th uint32
	var tv byte
	kind := ""
	redeliver := false
	switch tape.Draw(SProbe, 12) {
	case 0:
		kind = "index_outside_validator_list"
		p = mk(types[tape.Draw(SProbe, uint64(len(types)))], h, v, nv+int(tape.Draw(SProbe, 3)))
	case 1:
		if h == 0 || h <= s.sc.Start {
			return
		}
		kind = "past_height"
		ph := h - 1 - uint32(tape.Draw(SProbe, 2))
		if ph > h {
			ph = h - 1
		}
		p = mk(types[tape.Draw(SProbe, uint64(len(types)))], ph, byte(tape.Draw(SProbe, 3)), int(tape.Draw(SProbe, uint64(len(s.sc.ValsAt(ph))))))
	case 2:
		if nv < 2 {
			return
		}
		kind = "proposal_from_non_primary"
		idx := (prim + 1 + int(tape.Draw(SProbe, uint64(nv-1)))) % nv
		p = mk(dbft.PrepareRequestType, h, v, idx)
	case 3:
		if v == 0 {
			return
		}
		kind = "proposal_or_response_of_lower_view"
		t := dbft.PrepareRequestType
		if tape.Chance(SProbe, 1, 2) {
			t = dbft.PrepareResponseType
		}
		p = mk(t, h, byte(tape.Draw(SProbe, uint64(v))), anyIdx())
	case 4:
		kind = "response_from_primary"
		p = mk(dbft.PrepareResponseType, h, v, prim)
	case 5:
		if amev {
			return
		}
		kind = "precommit_while_antimev_off"
		p = mk(dbft.PreCommitType, h, byte(tape.Draw(SProbe, uint64(v)+1)), anyIdx())
	case 6:
		kind = "transaction_not_requested"
		id := 1_000_000 + tape.Draw(SProbe, 8)
		txp = NewTx(id, false)
		if tape.Chance(SProbe, 1, 2) && d.RequestSentOrReceived() {
			// a transaction of the current proposal that the node already holds was not
			// requested either (only the missing ones are)
			var heldTx []*Tx
			for _, hh := range d.TransactionHashes {
				missing := false
				for _, mh := range d.MissingTransactions {
					if mh == hh {
						missing = true
					}
				}
				if t, ok := d.Transactions[hh].(*Tx); ok && t != nil && !missing {
					heldTx = append(heldTx, t)
				}
			}
			if len(heldTx) > 0 {
				kind = "transaction_of_the_proposal_already_held"
				txp = heldTx[tape.Draw(SProbe, uint64(len(heldTx)))]
			}
		}
		for _, m := range d.MissingTransactions {
			if m == txp.Hash() {
				return
			}
		}
	case 7:
		kind = "timeout_of_other_epoch"
		th, tv = h, v
		switch tape.Draw(SProbe, 4) {
		case 0:
			th = h + 1
		case 1:
			if h > 0 {
				th = h - 1
			}
		case 2:
			tv = v + 1
		case 3:
			if v > 0 {
				tv = v - 1
			} else {
				tv = v + 2
			}
		}
		if th == h && tv == v {
			return
		}
	case 8:
		// a response that names another proposal than the one the node holds for this view is
		// dropped by the protocol (it can never count): like every dropped input it must leave
		// the node - its tables, its timer - as it was
		q, ok := d.PreparationPayloads[prim].(*Payload)
		if !ok || q == nil || q.T != dbft.PrepareRequestType || q.V != v || nv < 3 {
			return
		}
		var free []int
		for i := 0; i < nv; i++ {
			if i != prim && i != d.MyIndex && d.PreparationPayloads[i] == nil {
				free = append(free, i)
			}
		}
		if len(free) == 0 {
			return
		}
		kind = "response_naming_another_proposal"
		p = &Payload{T: dbft.PrepareResponseType, H: h, V: v, Idx: uint16(free[tape.Draw(SProbe, uint64(len(free)))]), Body: &PrepResp{Prep: rh()}, sender: -1}
		p.sign(s.kr.Priv(s.sc.ValsAt(h)[p.Idx]))
	case 9:
		// a vote of the current view that the node can check at once (it holds the header or
		// the pre-block it has to verify against) and that does not verify is dropped: nothing
		// of it stays, whatever phase the node is in (also after the pre-block was processed)
		vs := d.VerifState()
		t := dbft.CommitType
		var b any = &CommitBody{Sig: make([]byte, 64)}
		tab := d.CommitPayloads
		switch {
		case amev && vs.HasPreBlock && tape.Chance(SProbe, 2, 3):
			t, b, tab = dbft.PreCommitType, &PreCommitBody{D: make([]byte, 64)}, d.PreCommitPayloads
		case vs.HasHeader:
		default:
			return
		}
		var free []int
		for i := 0; i < nv; i++ {
			if i != d.MyIndex && tab[i] == nil {
				free = append(free, i)
			}
		}
		if len(free) == 0 {
			return
		}
		kind = "vote_that_does_not_verify"
		p = &Payload{T: t, H: h, V: v, Idx: uint16(free[tape.Draw(SProbe, uint64(len(free)))]), Body: b, sender: -1}
		p.sign(s.kr.Priv(s.sc.ValsAt(h)[p.Idx]))
	default:
		// redelivery of a payload the node currently holds
		var held []*Payload
		for _, tab := range [][]dbft.ConsensusPayload[Hash]{d.PreparationPayloads, d.CommitPayloads, d.PreCommitPayloads, d.ChangeViewPayloads} {
			for i, e := range tab {
				if pp, ok := e.(*Payload); ok && pp != nil && i != d.MyIndex {
					held = append(held, pp)
				}
			}
		}
		if len(held) == 0 {
			return
		}
		kind = "redelivery_of_held_payload"
		redeliver = true
		p = held[tape.Draw(SProbe, uint64(len(held)))].Clone()
	}
	o.kind, o.redeliv = kind, redeliver
	pre := n.fingerprint(probeMask)
	preSeen := seenList(n)
	preEnt := snapSeen(n)
	st := &Step{Probe: true}
	sender := -1
	switch {
	case p != nil:
		st.Op, st.P = OpReceive, p
		sender = int(p.Idx)
		n.callProbe(st, func() { n.d.OnReceive(p) })
	case txp != nil:
		st.Op, st.Tx = OpTx, txp
		n.callProbe(st, func() { n.d.OnTransaction(txp) })
	default:
		st.Op, st.TH, st.TV = OpTimeout, th, tv
		n.callProbe(st, func() { n.d.OnTimeout(th, tv) })
	}
	s.fault("probe:" + kind)
	if s.viol != nil || n.d == nil || st.Panic != nil {
		return
	}
	midRound := d.RequestSentOrReceived() && !d.BlockSent()
	if midRound {
		s.st.Exercised = true
		s.note("probe_hit_node_mid_round")
	}
	for i := range st.Outs {
		out := &st.Outs[i]
		switch out.Kind {
		case OBroadcast:
			if redeliver && out.P.T == dbft.RecoveryMessageType {
				continue
			}
			s.Violate("C11", "inadmissible_input_caused_broadcast", fmt.Sprintf("%s at height %d view %d: probe %s (%s) caused broadcast of %s", n, h, v, kind, st.describe(), out.P), n.id)
			return
		case OTimerReset, OTimerExtend:
			s.Violate("C11", "inadmissible_input_touched_timer", fmt.Sprintf("%s at height %d view %d: probe %s (%s) caused %s", n, h, v, kind, st.describe(), out.describe()), n.id)
			return
		case OProcessBlock, OProcessPreBlock, ORequestTx, OSign, OSetData:
			s.Violate("C11", "inadmissible_input_had_effect", fmt.Sprintf("%s at height %d view %d: probe %s (%s) caused %s", n, h, v, kind, st.describe(), out.describe()), n.id)
			return
		}
	}
	if post := n.fingerprint(probeMask); post != pre {
		s.Violate("C11", "inadmissible_input_changed_state", fmt.Sprintf("%s at height %d view %d: probe %s (%s) changed the state:%s", n, h, v, kind, st.describe(), fpDiff(pre, post)), n.id)
		return
	}
	if i, bad := rewound(preEnt, snapSeen(n), n.d.MyIndex); bad {
		s.Violate("C11", "last_seen_moved_backwards", fmt.Sprintf("%s at height %d view %d: probe %s (%s) moved the last-seen entry of validator %d backwards (%v -> %v)", n, h, v, kind, st.describe(), i, preEnt[i], snapSeen(n)[i]), n.id)
		return
	}
	postSeen := seenList(n)
	for i := range preSeen {
		if i < len(postSeen) && i != sender && preSeen[i] != postSeen[i] {
			s.Violate("C11", "inadmissible_input_changed_state", fmt.Sprintf("%s at height %d view %d: probe %s (%s) changed the last-seen entry of validator %d", n, h, v, kind, st.describe(), i), n.id)
			return
		}
	}
}
